"""Run engine: one run = a pure function of (property, seed, PYTHONHASHSEED, repo tree).

* execute(): build the world for one run (tape, hash epoch, file seam, scratch dir), call the property scenario,
  classify the outcome (ok / violation / harness-error), fingerprint the history.
* run_chunks(): fork-per-chunk worker pool (fresh child per chunk of seeds; hang => killed and reported as timeout).
* shrink(): per-stream tape minimisation keeping the same violation kind.
"""
import hashlib
import importlib
import json
import os
import pickle
import sys
import time
import traceback
from collections import Counter

from . import fs, hashseam
from .tape import Tape

VERIF = os.path.dirname(os.path.dirname(os.path.abspath(__file__)))


class Violation(Exception):
    def __init__(self, kind, site, detail, features=None):
        super().__init__(f"{kind} @ {site}: {detail}")
        self.kind = kind
        self.site = site
        self.detail = detail
        self.features = dict(features or {})


class Skip(Exception):
    """the generated case is outside the property's quantifier (counted as trivial)"""


class Ctx:
    def __init__(self, prop_id, seed, tape, tier):
        self.prop_id = prop_id
        self.seed = seed
        self.tape = tape
        self.tier = tier
        self.probes = Counter()
        self.faults = Counter()
        self.events = []
        self.steps = 0
        self.nontrivial = False
        self.sample = None
        self.trace = []
        self.profile = "clean"
        self.measures = {}
        self.cfg = {}
        self._dirn = 0

    def s(self, name):
        return self.tape.s(name)

    def log(self, *ev):
        self.events.append(ev)
        self.steps += 1

    def measure(self, name, value):
        """records a value whose number of DISTINCT occurrences over the whole check is reported in the evidence (e.g.
        thread schedules, effect-group application orders, fault positions)"""
        h = int.from_bytes(hashlib.blake2b(repr(value).encode(), digest_size=8).digest(), "big")
        self.measures.setdefault(name, set()).add(h)

    def note(self, text):
        if len(self.trace) < 80:
            self.trace.append(text)

    def digest(self):
        h = hashlib.blake2b(digest_size=8)
        for ev in self.events:
            h.update(repr(ev).encode())
            h.update(b"\n")
        return h.hexdigest()

    def dir(self, name="w"):
        self._dirn += 1
        return fs.fresh_dir(f"{name}{self._dirn}")

    def new_epoch(self):
        salt = self.s("hash").draw(1 << 30)
        hashseam.new_epoch(salt)
        self.probes["hash_epochs"] += 1
        return salt


_PRISTINE = {}


def canary_snapshot():
    from pddl_plus_parser.models import pddl_domain, pddl_function
    from pddl_plus_parser.lisp_parsers import parsing_utils, domain_parser
    dt = pddl_domain.DEFAULT_TYPES
    snap = {
        "DEFAULT_TYPES": tuple((k, v.name, v.parent.name if v.parent is not None else None) for k, v in dt.items()),
        "PDDLFunction.defaults": repr(pddl_function.PDDLFunction.__init__.__defaults__),
        "parse_untyped_predicate.defaults": repr(parsing_utils.parse_untyped_predicate.__defaults__),
        "parse_action.defaults": repr(domain_parser.DomainParser.parse_action.__defaults__),
        "ObjectType": (pddl_domain.ObjectType.name, pddl_domain.ObjectType.parent),
    }
    return snap


def canary_restore():
    """put process-global library state back to pristine (so that one dirty run cannot contaminate the next)"""
    from pddl_plus_parser.models import pddl_domain, pddl_function
    from pddl_plus_parser.lisp_parsers import parsing_utils, domain_parser
    dt = pddl_domain.DEFAULT_TYPES
    for k in list(dt):
        if k != "object":
            del dt[k]
    dt["object"] = pddl_domain.ObjectType
    pddl_domain.ObjectType.parent = None
    pddl_domain.ObjectType.name = "object"
    for fn in (pddl_function.PDDLFunction.__init__, parsing_utils.parse_untyped_predicate,
               domain_parser.DomainParser.parse_action):
        for d in fn.__defaults__ or ():
            if isinstance(d, dict):
                d.clear()


_setup_done = False


def setup_process():
    """import the repo under test (VERIF_REPO first on sys.path), install the seams.  Once per process."""
    global _setup_done
    if _setup_done:
        return
    repo = os.environ.get("VERIF_REPO", "/repo")
    if sys.path[0] != repo:
        sys.path.insert(0, repo)
    import logging
    logging.disable(logging.CRITICAL)
    import pddl_plus_parser
    got = os.path.dirname(os.path.dirname(os.path.abspath(pddl_plus_parser.__file__)))
    if os.path.realpath(got) != os.path.realpath(repo):
        raise RuntimeError(f"imported pddl_plus_parser from {got}, expected {repo}")
    hashseam.install()
    root = f"/dev/shm/verif-{os.getpid()}"
    fs.install(root)
    _PRISTINE.update(canary_snapshot())
    _setup_done = True


def load_prop(prop_id):
    return importlib.import_module(f"props.{prop_id.lower()}")


def execute(prop, seed, tier="quick", replay=None, want_sample=False):
    """-> result dict (picklable).  Never raises for library/scenario problems."""
    from . import sched
    tape = Tape(seed, replay)
    ctx = Ctx(prop.ID, seed, tape, tier)
    # per-run harness state
    fs.ROOT.mkdir(parents=True, exist_ok=True)
    # a directory name unique to the run: library-side state keyed on paths (caches) must not couple runs of a chunk
    import shutil
    for old in fs.ROOT.glob("run-*"):
        shutil.rmtree(old, ignore_errors=True)
    rundir = fs.fresh_dir(f"run-{seed}")
    fs.reset(dir_stream=tape.s("fs"), bufsize=[1, 7, 64, 512, 8192][tape.s("cfg").draw(5)],
             coarse_mtime=tape.s("cfg").draw(2) == 0)
    ctx.rundir = rundir
    # swarm: the application's logging configuration.  1 run in 4 has DEBUG logging enabled (records are dropped by a
    # NullHandler), the others have logging disabled; library behaviour must not depend on it
    import logging
    root = logging.getLogger()
    if tape.s("cfg").draw(4) == 0:
        logging.disable(logging.NOTSET)
        root.setLevel(logging.DEBUG)
        if not any(isinstance(h, logging.NullHandler) for h in root.handlers):
            root.handlers = [logging.NullHandler()]
        ctx.probes["debug_logging_enabled"] += 1
    else:
        logging.disable(logging.CRITICAL)
    ctx.new_epoch()
    res = {"seed": seed, "outcome": "ok", "kind": None}
    try:
        prop.run(ctx)
    except Violation as v:
        res.update(outcome="violation", kind=v.kind, site=v.site, detail=v.detail, features=v.features)
    except Skip:
        res.update(outcome="skip")
    except fs.SimCrash:
        res.update(outcome="harness-error", detail="SimCrash escaped the scenario\n" + traceback.format_exc())
    except sched.SimCancel:
        res.update(outcome="harness-error", detail="SimCancel escaped the scenario\n" + traceback.format_exc())
    except Exception as e:
        if type(e).__name__ == "WalkError":
            # the structural walker found a library object that is internally inconsistent (e.g. a None operand inside
            # a condition): that is a finding about the object, not about the harness
            res.update(outcome="violation", kind=f"{prop.ID}/model-structure-inconsistent", site="structural walker",
                       detail=str(e), features={})
        else:
            res.update(outcome="harness-error", detail=traceback.format_exc())
    finally:
        fs.disarm()
    snap = canary_snapshot()
    if snap != _PRISTINE:
        ctx.probes["canary_dirty"] += 1
        dirty = [k for k in snap if snap[k] != _PRISTINE[k]]
        canary_restore()
        if getattr(prop, "CANARY_IS_VIOLATION", False) and res["outcome"] == "ok":
            res.update(outcome="violation", kind=f"{prop.ID}/process-global-state-modified", site=",".join(dirty),
                       detail=f"library globals changed by the run: {dirty}", features={})
    for k, v in (fs.counters() or {}).items():
        if v:
            ctx.faults[k] += v
    res.update(digest=ctx.digest(), probes=dict(ctx.probes), faults=dict(ctx.faults), steps=ctx.steps,
               nontrivial=bool(ctx.nontrivial), profile=ctx.profile, measures=ctx.measures)
    if want_sample or res["outcome"] != "ok":
        res["sample"] = ctx.sample
        res["trace"] = ctx.trace
        res["cfg"] = ctx.cfg
    if res["outcome"] in ("violation", "harness-error"):
        res["streams"] = tape.record()
    return res


# ---------------------------------------------------------------------------------------------- chunk worker
def run_chunk(prop_id, seeds, tier, collect_digests=False, nsamples=2):
    setup_process()
    fs.set_root(f"/dev/shm/verif-{os.getpid()}")
    prop = load_prop(prop_id)
    agg = {"runs": 0, "ok": 0, "skip": 0, "probes": Counter(), "faults": Counter(), "steps": 0,
           "nontrivial": 0, "nt_digests": set(), "all_digests": set(), "violations": [], "harness_errors": [],
           "samples": [], "digests": [], "profiles": Counter(), "measures": {}}
    junk_level = int(os.environ.get("VERIF_JUNK", "0") or 0)
    junk = []
    for seed in seeds:
        if junk_level:
            # determinism self-test: perturb the heap between runs (identity hashes / allocation addresses must not matter)
            junk.append([object() for _ in range(137 * junk_level + (seed % 97))])
            if len(junk) > 5:
                junk.pop(0)
        r = execute(prop, seed, tier, want_sample=len(agg["samples"]) < nsamples)
        agg["runs"] += 1
        agg["probes"].update(r["probes"])
        agg["faults"].update(r["faults"])
        agg["steps"] += r["steps"]
        agg["profiles"][r["profile"]] += 1
        for mk, mv in (r.get("measures") or {}).items():
            agg["measures"].setdefault(mk, set()).update(mv)
        d = int(r["digest"], 16)
        agg["all_digests"].add(d)
        if r["nontrivial"]:
            agg["nontrivial"] += 1
            agg["nt_digests"].add(d)
        if collect_digests:
            agg["digests"].append((seed, r["digest"], r["outcome"], r.get("kind")))
        if r["outcome"] == "ok":
            agg["ok"] += 1
            if len(agg["samples"]) < nsamples and r.get("sample") is not None and r["nontrivial"]:
                agg["samples"].append({"seed": seed, "case": r["sample"], "trace": r.get("trace", [])[:12]})
        elif r["outcome"] == "skip":
            agg["skip"] += 1
        elif r["outcome"] == "violation":
            # one representative (the first, i.e. lowest seed of the chunk) per distinct (kind, site, feature tags): a
            # frequent recorded finding must never crowd out a different violation
            key = vkey(r)
            if not any(vkey(x) == key for x in agg["violations"]) and len(agg["violations"]) < 60:
                agg["violations"].append(r)
            agg["probes"]["violations_total"] += 1
            agg["probes"]["violations:" + r["kind"]] += 1
        else:
            if len(agg["harness_errors"]) < 5:
                agg["harness_errors"].append(r)
            agg["probes"]["harness_errors_total"] += 1
    return agg


def vkey(r):
    return (r.get("kind"), r.get("site"), repr(sorted((r.get("features") or {}).items())))


def merge(a, b):
    for k in ("runs", "ok", "skip", "steps", "nontrivial"):
        a[k] += b[k]
    for k in ("probes", "faults", "profiles"):
        a[k].update(b[k])
    for mk, mv in (b.get("measures") or {}).items():
        a.setdefault("measures", {}).setdefault(mk, set()).update(mv)
    a["nt_digests"] |= b["nt_digests"]
    a["all_digests"] |= b["all_digests"]
    for v in b["violations"]:
        if not any(vkey(x) == vkey(v) for x in a["violations"]) and len(a["violations"]) < 120:
            a["violations"].append(v)
    for k, cap in (("harness_errors", 10), ("samples", 6)):
        a[k].extend(b[k])
        del a[k][cap:]
    a["digests"].extend(b["digests"])
    return a


def empty_agg():
    return {"runs": 0, "ok": 0, "skip": 0, "probes": Counter(), "faults": Counter(), "steps": 0,
            "nontrivial": 0, "nt_digests": set(), "all_digests": set(), "violations": [], "harness_errors": [],
            "samples": [], "digests": [], "profiles": Counter(), "timeouts": 0, "dead_children": 0, "measures": {}}


def run_chunks(prop_id, chunks, tier, workers, deadline, chunk_timeout=300.0, collect_digests=False):
    """fork one child per chunk, at most `workers` alive.  Dispatch stops at `deadline` (time.time())."""
    setup_process()
    outdir = f"/dev/shm/verif-{os.getpid()}-res"
    os.makedirs(outdir, exist_ok=True)
    agg = empty_agg()
    pending = list(enumerate(chunks))[::-1]
    live = {}  # pid -> (idx, start)
    dispatched = 0
    while pending or live:
        while pending and len(live) < workers and time.time() < deadline:
            idx, seeds = pending.pop()
            pid = os.fork()
            if pid == 0:
                code = 0
                try:
                    import faulthandler
                    faulthandler.dump_traceback_later(chunk_timeout - 5, exit=True)
                    r = run_chunk(prop_id, seeds, tier, collect_digests)
                    with fs._real_open(f"{outdir}/{idx}.pkl.tmp", "wb") as f:
                        pickle.dump(r, f)
                    os.rename(f"{outdir}/{idx}.pkl.tmp", f"{outdir}/{idx}.pkl")
                except BaseException:
                    traceback.print_exc()
                    code = 3
                finally:
                    fs.cleanup()
                    os._exit(code)
            live[pid] = (idx, time.time())
            dispatched += 1
        if pending and not live and time.time() >= deadline:
            break
        try:
            pid, status = os.waitpid(-1, os.WNOHANG)
        except ChildProcessError:
            pid = 0
        if pid == 0:
            now = time.time()
            for p, (idx, st) in list(live.items()):
                if now - st > chunk_timeout:
                    try:
                        os.kill(p, 9)
                    except ProcessLookupError:
                        pass
            time.sleep(0.005)
            continue
        if pid not in live:
            continue
        idx, st = live.pop(pid)
        path = f"{outdir}/{idx}.pkl"
        if os.path.exists(path):
            with fs._real_open(path, "rb") as f:
                merge(agg, pickle.load(f))
            os.unlink(path)
        else:
            if os.WIFSIGNALED(status):
                agg["timeouts"] += 1
            else:
                agg["dead_children"] += 1
    agg["chunks_dispatched"] = dispatched
    agg["chunks_total"] = len(chunks)
    try:
        os.rmdir(outdir)
    except OSError:
        pass
    return agg


# ---------------------------------------------------------------------------------------------- shrinking
def _same(r, kind, features=None):
    return r["outcome"] == "violation" and r["kind"] == kind and (features is None or (r.get("features") or {}) == features)


def shrink(prop, seed, tier, streams, kind, budget=300, features=None):
    """greedy per-stream minimisation: delete spans, zero, halve.  Faults/schedule streams first, then ops, then
    workload.  Keeps a candidate only if the same violation kind recurs.  -> (streams, executions)"""
    best = {k: list(v) for k, v in streams.items()}
    used = 0
    t_end = time.time() + float(os.environ.get("VERIF_SHRINK_S", 90))  # wall cap per violation (slow scenarios)

    def attempt(cand):
        nonlocal used
        used += 1
        if time.time() > t_end:
            used = max(used, budget)  # stop: every loop below tests `used < budget`
            return False, None
        r = execute(prop, seed, tier, replay=cand)
        return _same(r, kind, features), r

    order = [n for n in ("fs", "sched", "hash", "ops", "workload", "cfg") if n in best]
    order += [n for n in best if n not in order]
    improved = True
    while improved and used < budget:
        improved = False
        for name in order:
            seq = best[name]
            # 1. truncate tail / delete spans
            span = max(1, len(seq) // 2)
            while span >= 1 and used < budget:
                i = 0
                while i < len(best[name]) and used < budget:
                    cand = {k: list(v) for k, v in best.items()}
                    del cand[name][i:i + span]
                    ok, r = attempt(cand)
                    if ok:
                        best = cand
                        improved = True
                    else:
                        i += span
                span //= 2
            # 2. zero / halve values
            i = 0
            while i < len(best[name]) and used < budget:
                v = best[name][i]
                for nv in ([0] if v else []) + ([v // 2] if v > 1 else []):
                    cand = {k: list(vv) for k, vv in best.items()}
                    cand[name][i] = nv
                    ok, r = attempt(cand)
                    if ok:
                        best = cand
                        improved = True
                        break
                i += 1
    return best, used


def jsonable(x):
    if isinstance(x, dict):
        return {str(k): jsonable(v) for k, v in x.items()}
    if isinstance(x, (list, tuple)):
        return [jsonable(v) for v in x]
    if isinstance(x, (set, frozenset)):
        return sorted((jsonable(v) for v in x), key=repr)
    if isinstance(x, (str, int, float, bool)) or x is None:
        return x
    return repr(x)
