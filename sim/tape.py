"""The choice tape: every decision of a simulated run is a bounded integer draw.

One integer (the run seed) seeds a handful of *named streams*; each stream is an
independent PRNG so that shrinking one dimension (say the operation list) does
not reshuffle another (say the hash schedule or the fault placement).  Draws are
recorded; a replay feeds a recorded stream back (value % k, 0 past the end), so
a replay file is the recorded streams.  Logging never draws.
"""
import hashlib
import random

STREAMS = ("cfg", "workload", "ops", "hash", "sched", "fs")


def _subseed(seed: int, name: str) -> int:
    h = hashlib.blake2b(f"{seed}/{name}".encode(), digest_size=8).digest()
    return int.from_bytes(h, "big")


class Stream:
    __slots__ = ("name", "rng", "rec", "replay", "i")

    def __init__(self, seed, name, replay=None):
        self.name = name
        self.rng = random.Random(_subseed(seed, name))
        self.rec = []
        self.replay = replay
        self.i = 0

    def draw(self, k: int) -> int:
        """uniform integer in [0, k)"""
        if k <= 1:
            v = 0
        elif self.replay is not None:
            v = (self.replay[self.i] % k) if self.i < len(self.replay) else 0
        else:
            v = self.rng.randrange(k)
        self.rec.append(v)
        self.i += 1
        return v

    def chance(self, num: int, den: int) -> bool:
        return self.draw(den) < num

    def pick(self, xs):
        return xs[self.draw(len(xs))]

    def shuffle(self, xs):
        xs = list(xs)
        for i in range(len(xs) - 1, 0, -1):
            j = self.draw(i + 1)
            xs[i], xs[j] = xs[j], xs[i]
        return xs

    def num(self, span=17, step=0.5):
        """a dyadic rational: multiples of `step` centred on 0"""
        return (self.draw(span) - span // 2) * step


class Tape:
    def __init__(self, seed: int, replay=None):
        """replay: dict stream-name -> list of ints (missing stream = all zeros)"""
        self.seed = seed
        self.replaying = replay is not None
        self._replay = replay
        self.streams = {}

    def s(self, name: str) -> Stream:
        st = self.streams.get(name)
        if st is None:
            rp = None
            if self._replay is not None:
                rp = list(self._replay.get(name, []))
            st = self.streams[name] = Stream(self.seed, name, rp)
        return st

    def record(self):
        return {n: list(st.rec) for n, st in self.streams.items()}
