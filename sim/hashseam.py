"""S1 - the hash schedule seam.

The library keeps every formula and effect collection in a `set`.  Members hash
either by object identity (no __hash__ defined: order depends on heap addresses)
or by hash(str(self)) (order depends on PYTHONHASHSEED).  Here both become a
function of a tape-drawn salt:

* identity-hashed classes: the i-th fresh object hashed in this epoch gets
  PRF(salt, i), stored on the instance (stable for its life, like id()).
* string-hashed classes: blake2b(salt || str(self)) - the contract the library
  relies on (equal text => equal hash) is preserved exactly.

A new *epoch* (new salt) may only start when no set built under the previous
salt will be used again (string-hashed members would be lost in their sets), so
scenario code re-creates every library object after `new_epoch`.
"""
import hashlib
import importlib
import inspect

ATTR = "_simh"

_state = {"salt": b"0", "n": 0, "epoch": 0, "fresh": 0}
_installed = {}


def _prf(salt: bytes, i: int) -> int:
    return int.from_bytes(hashlib.blake2b(salt + b"#" + str(i).encode(), digest_size=8).digest(), "big") >> 3


def _id_hash(self):
    d = self.__dict__
    v = d.get(ATTR)
    if v is None:
        _state["n"] += 1
        _state["fresh"] += 1
        v = d[ATTR] = _prf(_state["salt"], _state["n"])
    return v


def _str_hash(self):
    return int.from_bytes(hashlib.blake2b(_state["salt"] + str(self).encode(), digest_size=8).digest(), "big") >> 3


def _salted(orig):
    def h(self):
        return int.from_bytes(hashlib.blake2b(_state["salt"] + repr(orig(self)).encode(), digest_size=8).digest(), "big") >> 3
    return h


def new_epoch(salt: int):
    _state["salt"] = str(salt).encode()
    _state["n"] = 0
    _state["epoch"] += 1


def stats():
    return dict(_state)


def install():
    """Patch the classes; returns {'identity': [...], 'string': [...]} (names)."""
    if _installed:
        return _installed
    import pddl_plus_parser.models as M
    from pddl_plus_parser.models.grounded_effect import GroundedEffect
    from pddl_plus_parser.models.pddl_precondition import Precondition, UniversalPrecondition, CompoundPrecondition
    from pddl_plus_parser.models import (NumericalExpressionTree, ConditionalEffect, UniversalEffect, Predicate,
                                         GroundedPredicate)
    identity = [GroundedEffect, NumericalExpressionTree, ConditionalEffect, UniversalEffect]
    string = [Predicate, GroundedPredicate, Precondition, UniversalPrecondition]
    own = []
    for cls in identity:
        h = cls.__dict__.get("__hash__")
        if h is not None and h is not _id_hash:
            # the class (in the tree under test) hashes by value: keep its notion of equal-hash, salted per epoch
            own.append(cls.__name__)
            cls.__hash__ = _salted(h)
        else:
            cls.__hash__ = _id_hash
    _installed["value_hashed_in_this_tree"] = own
    for cls in string:
        cls.__hash__ = _str_hash
    _installed.update(identity=[c.__name__ for c in identity], string=[c.__name__ for c in string])
    _installed["unpatched_scan"] = scan_unpatched()
    return _installed


def scan_unpatched():
    """Classes of the package that define __eq__ without __hash__ are unhashable (fine); classes with neither use
    identity hashing.  Report identity-hashed classes we did not patch so that a class added by a later edit of the
    repo that ends up in a set is noticed (see also engine.check_sets)."""
    import pkgutil
    import pddl_plus_parser
    out = []
    for sub in ("models", "lisp_parsers", "exporters", "multi_agent"):
        pkg = importlib.import_module(f"pddl_plus_parser.{sub}")
        for m in pkgutil.iter_modules(pkg.__path__):
            try:
                mod = importlib.import_module(f"pddl_plus_parser.{sub}.{m.name}")
            except Exception:
                continue
            for name, cls in inspect.getmembers(mod, inspect.isclass):
                if cls.__module__ != mod.__name__:
                    continue
                if cls.__hash__ is object.__hash__:
                    out.append(f"{sub}.{m.name}.{name}")
    return sorted(set(out))


def is_identity_hashed_repo_object(o) -> bool:
    cls = type(o)
    return cls.__module__.startswith("pddl_plus_parser") and cls.__hash__ is object.__hash__
