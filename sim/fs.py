"""S5/S2 - the file-tree seam.

Real files under a per-process scratch root on tmpfs.  Interposition (active only for paths under the root) at
builtins.open / io.open and pathlib.Path.glob:

* directory order: sorted, then permuted by the tape (stream 'fs').
* read side:  open may raise FileNotFoundError / PermissionError / OSError(EIO); readlines()/read() may raise EIO.
* write side: the library writes through a real TextIOWrapper over a BufferedWriter (tape-drawn buffer size) over
  a fault-injecting raw sink which persists to the real file according to a plan:
     ack          - every byte reaches the file
     error(k)     - ENOSPC/EIO once more than k bytes were offered; the first k bytes are on disk; the exception
                    surfaces from write() or from close() depending on the buffer size (the exporter sees it)
     crash(k)     - SimCrash (BaseException) after k bytes; nothing more is persisted during unwinding
  open(path,"w") truncates first, as the real call does.

Faults are *armed* by the scenario (arm_write / arm_read), consumed by the next matching open, and counted when they
actually fire.
"""
import builtins
import errno
import io
import os
import pathlib
import shutil


class SimCrash(BaseException):
    """the process died at this point; only what reached the file survives"""


_real_open = builtins.open
_real_io_open = io.open
_real_glob = pathlib.Path.glob

ROOT = None  # pathlib.Path of the scratch root of this process
_st = {
    "write_plan": None,  # ('ack'|'error'|'crash', k, errno) consumed by the next write-open under ROOT
    "read_plan": None,   # ('open', exc) | ('read', exc) consumed by next read-open
    "bufsize": 8192,
    "dir_stream": None,  # tape stream deciding directory order
    "counters": None,
}


def counters():
    return _st["counters"]


COARSE_NS = 1_600_000_000 * 10 ** 9


def reset(dir_stream=None, bufsize=8192, coarse_mtime=False):
    """coarse_mtime: the simulated file system's clock does not advance between writes (coarse timestamp granularity,
    FAT / ext3 / NFS, or tools that normalise timestamps): every file written under the root keeps one mtime"""
    _st.update(write_plan=None, read_plan=None, bufsize=bufsize, dir_stream=dir_stream, coarse_mtime=coarse_mtime,
               counters={"opens_w": 0, "opens_r": 0, "globs": 0, "w_ack": 0, "w_error": 0, "w_crash": 0,
                         "r_open_fault": 0, "r_read_fault": 0, "dir_permuted": 0, "listdirs": 0}, in_glob=False)


def arm_write(kind, k=0, err=errno.ENOSPC):
    _st["write_plan"] = (kind, k, err)


def arm_read(where, exc):
    _st["read_plan"] = (where, exc)


def disarm():
    _st["write_plan"] = None
    _st["read_plan"] = None


def _stamp(path):
    if path is not None and _st.get("coarse_mtime"):
        try:
            os.utime(path, ns=(COARSE_NS, COARSE_NS))
        except OSError:
            pass


class FaultRaw(io.RawIOBase):
    def __init__(self, real, plan, path=None):
        super().__init__()
        self.real = real
        self.plan = plan
        self.path = path
        self.n = 0
        self.dead = False

    def writable(self):
        return True

    def write(self, b):
        b = bytes(b)
        if self.dead:
            # after a crash/error nothing more reaches the disk; an error keeps failing like a full disk does
            if self.plan[0] == "error":
                raise OSError(self.plan[2], os.strerror(self.plan[2]) + " (sim)")
            return len(b)
        kind, k, err = self.plan
        if kind != "ack" and self.n + len(b) > k:
            keep = max(0, k - self.n)
            if keep:
                self.real.write(b[:keep])
            self.real.flush()
            self.n += keep
            self.dead = True
            c = _st["counters"]
            if kind == "crash":
                c["w_crash"] += 1
                raise SimCrash()
            c["w_error"] += 1
            raise OSError(err, os.strerror(err) + " (sim)")
        self.real.write(b)
        self.n += len(b)
        return len(b)

    def close(self):
        if not self.closed:
            try:
                if not self.dead and self.plan[0] == "ack":
                    _st["counters"]["w_ack"] += 1
                self.real.close()
                _stamp(self.path)
            finally:
                super().close()


class FaultyReader:
    """wraps a real text file; read()/readlines() raise the planned exception"""

    def __init__(self, f, exc):
        self._f = f
        self._exc = exc

    def _boom(self):
        _st["counters"]["r_read_fault"] += 1
        raise self._exc

    def read(self, *a):
        self._boom()

    def readlines(self, *a):
        self._boom()

    def readline(self, *a):
        self._boom()

    def __iter__(self):
        self._boom()

    def __enter__(self):
        return self

    def __exit__(self, *a):
        self._f.close()
        return False

    def close(self):
        self._f.close()


def _under_root(file):
    if ROOT is None or isinstance(file, int):
        return None
    try:
        p = pathlib.Path(os.fspath(file))
    except TypeError:
        return None
    try:
        p.relative_to(ROOT)
    except ValueError:
        return None
    return p


def sim_open(file, mode="r", buffering=-1, encoding=None, errors=None, newline=None, closefd=True, opener=None):
    if isinstance(file, int) and file in _fd_paths and ("w" in mode or "a" in mode):
        # a descriptor obtained with os.open on a path of the simulated tree: the same write plans apply
        fd_path = _fd_paths.pop(file)
        c = _st["counters"]
        c["opens_w"] += 1
        plan = _st["write_plan"] or ("ack", 0, 0)
        _st["write_plan"] = None
        real = _real_open(file, mode.replace("t", "").replace("b", "") + "b", buffering=0, closefd=closefd)
        buf = io.BufferedWriter(FaultRaw(real, plan, fd_path), buffer_size=max(1, _st["bufsize"]))
        if "b" in mode:
            return buf
        return io.TextIOWrapper(buf, encoding=encoding or "utf-8", errors=errors, newline=newline)
    p = _under_root(file)
    if p is None:
        return _real_open(file, mode, buffering, encoding, errors, newline, closefd, opener)
    c = _st["counters"]
    if "w" in mode:
        c["opens_w"] += 1
        plan = _st["write_plan"] or ("ack", 0, 0)
        _st["write_plan"] = None
        real = _real_open(p, "wb", buffering=0)  # truncates, as the real call does
        raw = FaultRaw(real, plan, p)
        buf = io.BufferedWriter(raw, buffer_size=max(1, _st["bufsize"]))
        if "b" in mode:
            return buf
        return io.TextIOWrapper(buf, encoding=encoding or "utf-8", errors=errors, newline=newline)
    if "a" in mode or "+" in mode or "x" in mode:
        return _real_open(file, mode, buffering, encoding, errors, newline, closefd, opener)
    c["opens_r"] += 1
    plan = _st["read_plan"]
    _st["read_plan"] = None
    if plan and plan[0] == "open":
        c["r_open_fault"] += 1
        raise plan[1]
    f = _real_open(file, mode, buffering, encoding, errors, newline, closefd, opener)
    if plan and plan[0] == "read":
        return FaultyReader(f, plan[1])
    return f


# ---- the other ways to the same places: os.open + fdopen (writes), os.listdir / os.scandir / Path.iterdir (listings)
_real_os_open = os.open
_real_listdir = os.listdir
_real_scandir = os.scandir
_fd_paths = {}


def sim_os_open(path, flags, mode=0o777, *, dir_fd=None):
    fd = _real_os_open(path, flags, mode, dir_fd=dir_fd) if dir_fd is not None else _real_os_open(path, flags, mode)
    if dir_fd is None and (flags & (os.O_WRONLY | os.O_RDWR)) and _under_root(path) is not None:
        if len(_fd_paths) > 64:
            _fd_paths.clear()
        _fd_paths[fd] = os.fspath(path)
    return fd


def _permute(names):
    names = sorted(names)
    st = _st["dir_stream"]
    if st is not None and len(names) > 1:
        names = st.shuffle(names)
        _st["counters"]["dir_permuted"] += 1
    return names


def sim_listdir(path="."):
    res = _real_listdir(path)
    if not isinstance(path, int) and not _st.get("in_glob") and _under_root(path) is not None:
        _st["counters"]["listdirs"] += 1
        return _permute(res)
    return res


class _ScanDir:
    def __init__(self, entries):
        self._it = iter(entries)

    def __iter__(self):
        return self

    def __next__(self):
        return next(self._it)

    def __enter__(self):
        return self

    def __exit__(self, *a):
        self.close()

    def close(self):
        self._it = iter(())


def sim_scandir(path="."):
    if isinstance(path, int) or _st.get("in_glob") or _under_root(path) is None:
        return _real_scandir(path)
    with _real_scandir(path) as it:
        entries = {e.name: e for e in it}
    _st["counters"]["listdirs"] += 1
    return _ScanDir([entries[n] for n in _permute(list(entries))])


def sim_glob(self, pattern, **kw):
    _st["in_glob"] = True  # the real glob lists directories itself; its result is permuted once, below
    try:
        res = sorted(_real_glob(self, pattern, **kw))
    finally:
        _st["in_glob"] = False
    if _under_root(self) is not None:
        c = _st["counters"]
        c["globs"] += 1
        st = _st["dir_stream"]
        if st is not None and len(res) > 1:
            res = st.shuffle(res)
            c["dir_permuted"] += 1
    yield from res


def install(root: pathlib.Path):
    global ROOT
    ROOT = pathlib.Path(root)
    ROOT.mkdir(parents=True, exist_ok=True)
    builtins.open = sim_open
    io.open = sim_open
    pathlib.Path.glob = sim_glob
    os.open = sim_os_open
    os.listdir = sim_listdir
    os.scandir = sim_scandir
    reset()


def set_root(root):
    """re-point the scratch root (a forked child must not share its parent's directory)"""
    global ROOT
    ROOT = pathlib.Path(root)
    ROOT.mkdir(parents=True, exist_ok=True)


def fresh_dir(name):
    d = ROOT / name
    if d.exists():
        shutil.rmtree(d)
    d.mkdir(parents=True)
    return d


def cleanup():
    if ROOT is not None and ROOT.exists():
        shutil.rmtree(ROOT, ignore_errors=True)


def write_real(path, text, encoding="utf-8"):
    """harness-side write that bypasses the seam"""
    with _real_open(path, "w", encoding=encoding, newline="") as f:
        f.write(text)
    _stamp(path)


def write_real_bytes(path, data):
    with _real_open(path, "wb") as f:
        f.write(data)
    _stamp(path)


def read_real_bytes(path):
    with _real_open(path, "rb") as f:
        return f.read()
