"""S3 - caller threads and cancellation.

Client scripts run on real threading.Threads that pass a single baton: only the baton holder executes.
sys.settrace is installed per client thread and returns a local tracer only for frames whose code lives under the
repository's package directory; every 'line' event there is a potential pre-emption point, decided by the tape
(stream 'sched').  The same tracer implements the cancellation fault: at a tape-chosen line it raises SimCancel
inside the library frame (what a signal-based timeout does to a long call).
Exactly one thread is runnable at any time, so the interleaving is a pure function of the tape.
"""
import os
import sys
import threading


class SimCancel(Exception):
    pass


class Sched:
    def __init__(self, stream, pkg_dir, p_num=1, p_den=100, forced=(), cancel_at=(), max_lines=400_000):
        """p_num/p_den: per-line pre-emption probability; forced: sorted global line indices at which a switch is
        forced; cancel_at: global line indices at which SimCancel is raised in the running thread."""
        self.st = stream
        self.pkg = pkg_dir.rstrip("/") + "/"
        self.p_num, self.p_den = p_num, p_den
        self.forced = set(forced)
        self.cancel_at = set(cancel_at)
        self.max_lines = max_lines
        self.tasks = {}
        self.order = []
        self.current = None
        self.done = set()
        self.cv = threading.Condition()
        self.lines = 0
        self.switches = 0
        self.cancels = 0
        self.errors = {}
        self.schedule = []  # (line index, thread) at each switch - the interleaving fingerprint
        self.no_cancel_depth = 0

    def spawn(self, name, fn):
        def body():
            with self.cv:
                while self.current != name:
                    self.cv.wait()
            sys.settrace(self.trace)
            try:
                fn()
            except BaseException as e:  # scenario code handles library exceptions itself; anything here is a bug
                self.errors[name] = e
            finally:
                sys.settrace(None)
                with self.cv:
                    self.done.add(name)
                    self._pick()
                    self.cv.notify_all()

        self.tasks[name] = threading.Thread(target=body, name=name, daemon=True)
        self.order.append(name)

    def cancel_after(self, k):
        """arms a cancellation k traced library lines from now (called by a task right before the call it targets)"""
        self.cancel_at.add(self.lines + k)

    def _pick(self):
        alive = [n for n in self.order if n not in self.done]
        self.current = alive[self.st.draw(len(alive))] if alive else None

    def trace(self, frame, event, arg):
        if not frame.f_code.co_filename.startswith(self.pkg):
            return None
        return self.line

    def line(self, frame, event, arg):
        if event != "line":
            return self.line
        self.lines += 1
        n = self.lines
        if n in self.cancel_at and self.no_cancel_depth == 0:
            self.cancels += 1
            raise SimCancel()
        if n > self.max_lines:
            return self.line
        if n in self.forced or (self.p_num and self.st.draw(self.p_den) < self.p_num):
            me = threading.current_thread().name
            with self.cv:
                self._pick()
                if self.current != me:
                    self.switches += 1
                    self.schedule.append((n, self.current))
                    self.cv.notify_all()
                    while self.current != me:
                        self.cv.wait()
        return self.line

    def run(self, timeout=120.0):
        for t in self.tasks.values():
            t.start()
        with self.cv:
            self._pick()
            self.cv.notify_all()
        for t in self.tasks.values():
            t.join(timeout)
            if t.is_alive():
                raise RuntimeError("scheduler: thread did not finish (deadlock in harness?)")
        if self.errors:
            name, e = sorted(self.errors.items())[0]
            raise e
