"""C15 - sequential-to-joint plan conversion keeps actions, agent order and outcome.

Simulation dimension: history (the sequential plan), S1 hash schedule, S5 (plan file in, joint plan file out).
Oracle (history check): conservation, per-agent order, slot discipline, serialisability of every joint step in its
pre-state, same final state - all by the reference interpreter."""
from collections import Counter

from sim import fs
from sim.engine import Violation, Skip
from ref import interp, sexpr
from gen import pddl as G
from . import common as C
from .common import L

ID = "C15"
RUNS = {"quick": 16_000, "thorough": 300_000}
BUDGET_S = {"quick": 120, "thorough": 800}
CHUNK = 150
RULE = ("each run draws a multi-agent (domain, problem) with 2-4 agents and a valid sequential plan of 1-12 steps (reference "
        "random walk; first argument of every action is the acting agent), writes it as a plan file with tape-chosen step "
        "numbering, converts it with both settings of should_validate_concurrency_constraint, exports the joint plan and "
        "re-executes the written file with the multi-agent trajectory exporter; non-trivial = some joint step has >= 2 "
        "members; distinct = distinct history digests")
ASSUMPTIONS = ["non-interference of a joint step = serialisability of its members in the step's pre-state (reference)",
               "executing agent of a call = its first argument"]
REAL_VS_STUB = {"real": ["PlanConverter.convert_plan/export_plan, apply_actions, MultiAgentTrajectoryExporter.parse_plan, "
                         "Operator, parsers"], "stub": ["__hash__ seam", "builtins.open seam"]}
TECHNIQUE = "deterministic simulation: seeded sequential-plan histories (incl. 300-600 step plans) converted to joint plans, converter re-used across in-place model revisions, two threads sharing a converter on two problems, renaming metamorphosis; conservation/order/serialisability/final-state history check by a reference interpreter"
DESIGN_REF = "DESIGN.md §5 C15"
LEVEL_TEXT = ("seeded exploration of valid sequential multi-agent plans; the converter's output is checked as a history "
              "(conservation, per-agent order, slot discipline, serialisability of each step, same final state) and re-executed "
              "from the exported file; sampling, not proof")
LEVEL_NOTE = "trusts the reference interpreter; non-interference is read as serialisability"


def render_plan(calls, t):
    style = t.draw(4)
    lines = []
    for i, c in enumerate(calls):
        body = C.fmt_call(*c)
        if t.chance(1, 6):
            body = body.upper()
        if len(c[1]) >= 1 and t.chance(1, 8):
            # a long step wrapped over two lines (the arguments continue on the next line)
            k = 1 + t.draw(len(c[1]))
            parts = body[1:-1].split(" ")
            body = "(" + " ".join(parts[:k]) + "\n      " + " ".join(parts[k:]) + ")"
        if style == 0:
            lines.append(body)
        elif style == 1:
            lines.append(f"{i}: {body}")
        elif style == 2:
            lines.append(f"{i:03d} : {body}")
        else:
            lines.append(f"{i * 100} : {body}")
    if t.chance(1, 4):
        # planner chatter: paren-free ';' comment lines before, between and after the steps (LPG / VAL style headers)
        for _ in range(1 + t.draw(3)):
            lines.insert(t.draw(len(lines) + 1), ["; Version LPG-td-1.0", "; Seed 12345", "; Time 0.02", "; NrActions 7",
                                                  "; cost = 12 unit cost"][t.draw(5)])
    return "\n".join(lines) + ("\n" if t.chance(1, 2) else "")


def run(ctx):
    cfg = ctx.s("cfg")
    if cfg.draw(200 if ctx.tier == "quick" else 40) == 0:
        return run_fixture(ctx, cfg, ctx.s("ops"))
    feat = C.draw_features(ctx)
    feat["max_params"] = 2
    feat["join_names"] = cfg.draw(3) == 0  # more often than elsewhere: the converter compares calls by their text
    nag = 2 + cfg.draw(3)
    W = C.World(ctx, feat, multi_agent=True, agents=nag)
    ops = ctx.s("ops")
    agents = [o for o, ty in W.P["objects"].items() if ty == "agent"]
    if cfg.chance(1, 3):
        agents = ops.shuffle(agents)  # the caller's agent order need not be the declaration order
    # ---- a valid sequential plan (reference random walk); the initial state is nudged so that agents can act
    S0 = interp.init_state(W.P)
    for _ in range(4):
        c = G.gen_call(ops, W.D, W.P)
        if c:
            S0 = C.force_applicable(S0, W.action(c[0]), c[1], W)
    cur = S0
    plan = []
    n = 1 + cfg.draw(12)
    if cfg.draw(250) == 0:
        n = 300 + cfg.draw(300)  # a long plan (several hundred steps, a plan text of 10-20 thousand characters)
        ctx.probes["long_plan_wanted"] += 1
        if cfg.draw(2) == 0:
            # long runs are where applications turn logging on: DEBUG level, records dropped by a NullHandler (the
            # engine's logging swarm dimension, here with probability 1/2 instead of 1/4)
            import logging
            logging.disable(logging.NOTSET)
            logging.getLogger().setLevel(logging.DEBUG)
            if not any(isinstance(h, logging.NullHandler) for h in logging.getLogger().handlers):
                logging.getLogger().handlers = [logging.NullHandler()]
    for _ in range(n):
        r = None
        for _try in range(8):
            c = None
            if feat.get("join_names") and plan and _try < 4 and ops.draw(3):
                c = join_twin(ops, W, ops.pick(plan))  # another call that reads the same once its tokens are joined
                if c is not None:
                    ctx.probes["join_twin_tried"] += 1
            if c is None:
                c = G.gen_call(ops, W.D, W.P)
            if c is None:
                continue
            try:
                if interp.applicable(cur, W.action(c[0]), c[1], W.D, W.objs):
                    nxt, _ = interp.successor(cur, W.action(c[0]), c[1], W.D, W.objs)
                    if interp.too_large(nxt):
                        continue
                    r = (c, nxt)
                    break
            except (interp.Inconsistent, interp.Undefined):
                pass
        if r is None:
            break
        plan.append(r[0])
        cur = r[1]
    if not plan:
        raise Skip()
    if len(plan) >= 250:
        ctx.probes["long_plan"] += 1
    if any(x != y and "_".join(x[1]) == "_".join(y[1]) and x[0] == y[0] for x in plan for y in plan):
        ctx.probes["plan_with_join_twins"] += 1
    final_seq = cur
    validate = cfg.chance(1, 2)
    check_conversion(ctx, W, S0, plan, final_seq, agents, validate, ops)


def join_twin(ops, W, c):
    """a different type-correct call of the same action whose tokens give the same text when joined by '_', '-' or
    nothing - e.g. (a x x_x) / (a x_x x)"""
    import itertools
    a, args = c
    cands = [G.objects_of(W.D, W.objs, ty) for _, ty in W.action(a)["params"]]
    out = []
    for combo in itertools.islice(itertools.product(*cands), 400):
        if list(combo) != list(args) and any(sep.join(combo) == sep.join(args) for sep in ("_", "-", "")):
            out.append((a, list(combo)))
    return ops.pick(out) if out else None


def run_fixture(ctx, cfg, ops):
    from . import fixtures
    fx = fixtures.load_ma_plan(cfg.draw(len(fixtures.MA_PLANS)))
    if "unsupported" in fx:
        ctx.probes["fixture_unsupported"] += 1
        raise Skip()
    ctx.profile = "shipped-plan"
    ctx.probes["fixture_plan"] += 1
    W = C.FixtureWorld(fx)
    agents = list(fx["agents"])
    if cfg.chance(1, 3):
        agents = ops.shuffle(agents)
    plan = [(a, list(args)) for a, args in fx["calls"]][: 2 + cfg.draw(40)]
    S0 = interp.init_state(W.P)
    cur = S0
    for a, args in plan:
        cur, _ = interp.successor(cur, W.action(a), args, W.D, W.objs)
    check_conversion(ctx, W, S0, plan, cur, agents, cfg.chance(1, 2), ops)


def renamed_conversion(ctx, W, S0, plan, agents, validate, jp):
    """metamorphic oracle: the conversion is a function of the plan's structure, not of what the objects are called.
    The same problem with every object renamed injectively to a separator-free name (z000q, z001q, ...) must be
    grouped the same way.  Catches anything keyed on joined / embedded / prefix-sharing names."""
    import copy
    from pddl_plus_parser.multi_agent import PlanConverter
    names = list(W.P["objects"])
    ren = {o: f"z{i:03d}q" for i, o in enumerate(names)}
    r = lambda x: ren.get(x, x)
    W2 = copy.copy(W)
    W2.P = dict(W.P, objects={r(o): ty for o, ty in W.P["objects"].items()},
                facts={(f[0],) + tuple(r(a) for a in f[1:]) for f in W.P["facts"]},
                fluents={(k[0],) + tuple(r(a) for a in k[1:]): v for k, v in W.P["fluents"].items()},
                goal=[(g[0],) + tuple(r(a) for a in g[1:]) for g in W.P.get("goal", [])], goal_num=[])
    W2.objs = G.all_objects(W2.D, W2.P)
    S0r = (frozenset((f[0],) + tuple(r(a) for a in f[1:]) for f in S0[0]),
           {(k[0],) + tuple(r(a) for a in k[1:]): v for k, v in S0[1].items()})
    plan_r = [(a, [r(x) for x in args]) for a, args in plan]
    agents_r = [r(a) for a in agents]
    try:
        d2, p2, _ = C.lib_world(ctx, W2, S0r, tag="-renamed")
        path2 = C.put(ctx, "plan-renamed.solution", "\n".join(C.fmt_call(*c) for c in plan_r) + "\n")
        joint2 = PlanConverter(d2).convert_plan(p2, path2, agents_r, should_validate_concurrency_constraint=validate)
    except Exception as e:
        describe(ctx, W, plan, S0)
        ctx.note(f"plan {[C.fmt_call(*c) for c in plan]} agents {agents} renaming {ren}")
        ctx.note(f"original conversion: {[[('nop' if c is None else C.fmt_call(*c)) for c in s] for s in jp]}")
        raise Violation("C15/renaming-changes-conversion", "PlanConverter.convert_plan",
                        f"the renamed copy of a problem whose plan converts fails: {type(e).__name__}: {e}")
    back = {v: k for k, v in ren.items()}
    jp2 = [[None if a.name == "nop" else (a.name, [back.get(x, x) for x in a.parameters]) for a in ja.actions]
           for ja in joint2]
    ctx.probes["renamed_conversions"] += 1
    if jp2 != jp:
        fmt = lambda J: [[("nop" if c is None else C.fmt_call(*c)) for c in s] for s in J]
        ctx.note(f"original names: {fmt(jp)}")
        ctx.note(f"renamed copy:   {fmt(jp2)} (mapped back)")
        raise Violation("C15/renaming-changes-conversion", "PlanConverter.convert_plan",
                        f"renaming the objects {ren} changes the grouping: {C.short(fmt(jp), 200)} vs "
                        f"{C.short(fmt(jp2), 200)}")


def agent_of(c, agents):
    """the executing agent of a call: the first agent name among its arguments"""
    for a in c[1]:
        if a in agents:
            return a
    return None


def check_conversion(ctx, W, S0, plan, final_seq, agents, validate, ops, reuse=None):
    """reuse: (domain, converter) of an earlier conversion whose domain object was revised in place meanwhile"""
    fixture = isinstance(W, C.FixtureWorld)
    from pddl_plus_parser.multi_agent import PlanConverter, MultiAgentTrajectoryExporter
    try:
        if reuse:
            d = reuse[0]
            p = C.parse_problem(ctx, W.problem_text(S0), d, "problem-revised.pddl")
        else:
            d, p, s0 = C.lib_world(ctx, W, None if fixture else S0)
    except Exception as e:
        raise Violation("C15/generated-input-rejected", "DomainParser/ProblemParser", f"{type(e).__name__}: {e}")
    text = render_plan(plan, ops)
    path = C.put(ctx, "plan.solution", text)
    ctx.log("input", W.dom_text_plain, sorted(S0[0])[:60], sorted(S0[1].items())[:60], text, tuple(agents), validate)
    conv = reuse[1] if reuse else PlanConverter(d)
    site = "PlanConverter.convert_plan"  # (also for the re-used converter: the recorded findings are matched by site)
    if reuse:
        ctx.note("this conversion re-used the converter of an earlier one; the model was revised in place in between")
    import pddl_plus_parser.multi_agent.single_agent_plan_converter as conv_mod
    formed = []
    orig_apply = conv_mod.apply_actions

    def spy(domain, state, joint_action, *a, **kw):
        formed.append([(c.name, list(c.parameters)) for c in joint_action if c.name != "nop"])
        return orig_apply(domain, state, joint_action, *a, **kw)

    conv_mod.apply_actions = spy
    try:
        joint = conv.convert_plan(p, path, list(agents), should_validate_concurrency_constraint=validate)
    except Exception as e:
        # the converter tracks the state by applying the joint steps it forms; when an earlier step grouped
        # interfering actions the tracked state is wrong and a later valid action is refused.  Attribute it.
        describe(ctx, W, plan, S0)
        cur = S0
        for i, members in enumerate(formed):
            for m in members:
                if not interp.applicable(cur, W.action(m[0]), m[1], W.D, W.objs):
                    raise Violation("C15/member-not-applicable-in-prestate", site,
                                    f"(converter then failed with {type(e).__name__}) step {i}: {C.fmt_call(*m)} is not "
                                    f"applicable in the step's pre-state; members {[C.fmt_call(*x) for x in members]}")
            ok, nxt, why = interp.serialisable(cur, [(W.action(a), args) for a, args in members], W.D, W.objs)
            if not ok:
                raise Violation("C15/joint-step-not-serialisable", site,
                                f"(converter then failed with {type(e).__name__}) step {i} "
                                f"{[C.fmt_call(*m) for m in members]}: {why}", classify(W, members, cur))
            cur = nxt
        raise Violation("C15/valid-plan-rejected", site, f"{type(e).__name__}: {e}; plan={[C.fmt_call(*c) for c in plan]}")
    finally:
        conv_mod.apply_actions = orig_apply
    jp = []
    for ja in joint:
        slots = []
        for a in ja.actions:
            slots.append(None if a.name == "nop" else (a.name, list(a.parameters)))
        jp.append(slots)
    ctx.sample = {"sequential": [C.fmt_call(*c) for c in plan], "agents": agents, "validate_concurrency": validate,
                  "joint": [[("nop" if c is None else C.fmt_call(*c)) for c in s] for s in jp]}
    ctx.nontrivial = any(sum(1 for c in s if c) >= 2 for s in jp)
    ctx.probes[f"max_members_{max((sum(1 for c in s if c) for s in jp), default=0)}"] += 1
    # ---- history checks
    flat = [c for s in jp for c in s if c is not None]
    want_ms = Counter((c[0], tuple(c[1])) for c in plan)
    got_ms = Counter((c[0], tuple(c[1])) for c in flat)
    if want_ms != got_ms:
        raise Violation("C15/actions-not-conserved", site,
                        f"missing={list((want_ms - got_ms).elements())[:3]} extra={list((got_ms - want_ms).elements())[:3]}")
    for i, s in enumerate(jp):
        if len(s) != len(agents):
            raise Violation("C15/slot-count", site, f"step {i} has {len(s)} slots for {len(agents)} agents")
        for k, c in enumerate(s):
            if c is not None and agent_of(c, agents) != agents[k]:
                raise Violation("C15/wrong-slot", site, f"step {i} slot {k} ({agents[k]}) holds {C.fmt_call(*c)}")
    for ag in agents:
        seq = [(c[0], tuple(c[1])) for c in plan if agent_of(c, agents) == ag]
        got = [(c[0], tuple(c[1])) for s in jp for c in s if c is not None and agent_of(c, agents) == ag]
        if seq != got:
            raise Violation("C15/agent-order-changed", site, f"agent {ag}: {seq} -> {got}")
    cur = S0
    for i, s in enumerate(jp):
        members = [c for c in s if c is not None]
        for m in members:
            if not interp.applicable(cur, W.action(m[0]), m[1], W.D, W.objs):
                describe(ctx, W, members, cur)
                raise Violation("C15/member-not-applicable-in-prestate", site,
                                f"step {i}: {C.fmt_call(*m)} is not applicable in the step's pre-state; members "
                                f"{[C.fmt_call(*x) for x in members]}")
        ok, nxt, why = interp.serialisable(cur, [(W.action(a), args) for a, args in members], W.D, W.objs)
        if not ok:
            ctx.note(f"step {i} members {[C.fmt_call(*m) for m in members]}")
            for m in members:
                ctx.note(f"  {m[0]}: pre={G.r_f(W.action(m[0])['pre'])} eff={[G.r_e(e) for e in W.action(m[0])['eff']]}")
            raise Violation("C15/joint-step-not-serialisable", site,
                            f"step {i} {[C.fmt_call(*m) for m in members]}: {why}", classify(W, members, cur))
        cur = nxt
    if not interp.state_eq(cur, final_seq):
        raise Violation("C15/final-state-differs", site, interp.state_diff(cur, final_seq))
    # (only for conversions that passed everything above: once interfering members were grouped - the recorded
    # findings - the converter's tracked state depends on the order in which it applied them)
    if not fixture and (W.feat.get("join_names") or ctx.s("cfg").draw(6) == 0):
        renamed_conversion(ctx, W, S0, plan, agents, validate, jp)
    # ---- two caller threads convert the same plan, each with its own converter and its own agent order, sharing the
    # domain and problem objects: each must get what it gets alone
    if not fixture and ctx.s("cfg").chance(1, 3) and len(agents) >= 2:
        orders = [list(agents), list(reversed(agents))]
        shared_conv = PlanConverter(d) if ctx.s("cfg").chance(1, 2) else None  # one converter for both threads, or one each
        # the second thread may work on ANOTHER problem of the same domain (the same one plus an object nobody mentions).
        # Only the FIRST thread's result is compared then: in the other problem the plan need not be a walk of consistent
        # steps any more (a forall effect may now write a fluent twice), so the second conversion's own outcome is outside
        # the quantifier - but nothing it does may be visible to the first:
        # whatever a conversion needs to know about its problem must not be visible to the other one
        probs = [p, p]
        types_ = [ty for ty in W.D["types"] if ty != "agent" and ty not in W.D.get("implicit_types", ())]
        if types_ and ctx.s("cfg").chance(2, 3):
            import copy
            Wb = copy.copy(W)
            Wb.P = dict(W.P, objects={**W.P["objects"], "znew": types_[ctx.s("cfg").draw(len(types_))]})
            try:
                probs[1] = C.parse_problem(ctx, Wb.problem_text(S0), d, "problem-other.pddl")
                ctx.probes["threads_on_two_problems"] += 1
            except Exception:
                probs[1] = p

        def conv_once(cv, pr, o):
            try:
                return ("ok", [[("nop" if a.name == "nop" else (a.name, tuple(a.parameters))) for a in ja.actions]
                               for ja in cv.convert_plan(pr, path, list(o), should_validate_concurrency_constraint=validate)])
            except Exception as e:
                return ("exc", type(e).__name__)
        alone = [conv_once(PlanConverter(d), pr, o) for pr, o in zip(probs, orders)]

        def mk(pr, o):
            def thunk():
                r = conv_once(shared_conv or PlanConverter(d), pr, o)
                if r[0] == "exc":
                    raise RuntimeError(r[1])
                return r[1]
            return thunk
        results, switches = C.concurrent(ctx, [mk(pr, o) for pr, o in zip(probs, orders)])
        for k_, (o, r, a) in enumerate(zip(orders, results, alone)):
            if k_ == 1 and probs[1] is not p:
                continue
            if (r[0], r[1] if r[0] == "ok" else None) != (a[0], a[1] if a[0] == "ok" else None):
                raise Violation("C15/concurrent-conversion-differs", site,
                                f"agents={o}: two threads converting at once got {C.short(r, 200)}, alone {C.short(a, 200)}")
        ctx.probes["threaded_checked"] += 1
    # ---- export and re-execute the written file
    out = ctx.rundir / "joint.plan"
    try:
        conv.export_plan(out, joint)
        exporter = MultiAgentTrajectoryExporter(d)
        triplets = exporter.parse_plan(p, plan_path=out)
    except Exception as e:
        raise Violation("C15/joint-plan-not-executable", "export_plan -> MultiAgentTrajectoryExporter.parse_plan",
                        f"{type(e).__name__}: {e}")
    if len(triplets) != len(jp):
        raise Violation("C15/joint-plan-roundtrip-length", "export_plan -> parse_plan",
                        f"{len(triplets)} triplets for {len(jp)} joint actions")
    got_final = C.abs_state(triplets[-1].next_state, "MultiAgentTrajectoryExporter.parse_plan", ID)
    if not interp.state_eq(got_final, final_seq):
        raise Violation("C15/executed-final-state-differs", "export_plan -> parse_plan",
                        interp.state_diff(got_final, final_seq))
    for i, t in enumerate(triplets):
        names = [("nop" if c is None else c[0]) for c in jp[i]]
        if [op.name for op in t.joint_action] != names:
            raise Violation("C15/joint-plan-roundtrip-differs", "export_plan -> parse_plan",
                            f"step {i}: {[str(o) for o in t.joint_action]} vs {names}")
    ctx.steps += len(plan)
    # ---- history: the model is revised in place (an effect is added to an action, as a learner does), then the SAME
    # converter converts the plan again - as far as it is still valid - and must respect the action as it is now
    if not fixture and not reuse and ops.chance(1, 3):
        r = C.revise_model(ctx, W, d, ops, kinds=("add_effect",))
        if r:
            W2, what = r
            cur, plan2 = S0, []
            for c in plan:
                try:
                    if not interp.applicable(cur, W2.action(c[0]), c[1], W2.D, W2.objs):
                        break
                    nxt, _ = interp.successor(cur, W2.action(c[0]), c[1], W2.D, W2.objs)
                except (interp.Inconsistent, interp.Undefined):
                    break
                if interp.too_large(nxt):
                    break
                plan2.append(c)
                cur = nxt
            if plan2:
                ctx.note(f"revision: {what}")
                ctx.probes["conversion_after_revision"] += 1
                check_conversion(ctx, W2, S0, plan2, cur, agents, validate, ops, reuse=(d, conv))


def describe(ctx, W, plan, S0):
    ctx.note(f"init facts={sorted(S0[0])} fluents={sorted(S0[1].items())}")
    for a in sorted({c[0] for c in plan}):
        ctx.note(f"  {a}{W.action(a)['params']}: pre={G.r_f(W.action(a)['pre'])} eff={[G.r_e(e) for e in W.action(a)['eff']]}")


def _ground_atom(a, b):
    return (a[1],) + tuple(b.get(x, x) for x in a[2])


def _reads(f, b, atoms_pos, atoms_neg, fluents, W=None):
    """atoms / fluents a formula reads (grounded under b; a universally quantified condition is expanded over the
    objects of W)"""
    k = f[0]
    if k in ("and", "or"):
        for x in f[1]:
            _reads(x, b, atoms_pos, atoms_neg, fluents, W)
    elif k == "atom":
        atoms_pos.add(_ground_atom(f, b))
    elif k == "not":
        atoms_neg.add(_ground_atom(f[1], b))
    elif k == "cmp":
        _expr_reads(f[2], b, fluents)
        _expr_reads(f[3], b, fluents)
    elif k == "forall" and W is not None:
        for o, ty in W.objs.items():
            if interp.is_sub(W.D["types"], ty, f[2]):
                _reads(f[3], {**b, f[1]: o}, atoms_pos, atoms_neg, fluents, W)


def _expr_reads(e, b, fluents):
    if isinstance(e, (int, float)):
        return
    if e[0] == "fn":
        fluents.add((e[1],) + tuple(b.get(x, x) for x in e[2]))
    else:
        _expr_reads(e[1], b, fluents)
        _expr_reads(e[2], b, fluents)


def footprint(W, a, args):
    """potential reads/writes of a call: 'plain' = unconditional + when groups (what the converter's own test looks
    at), 'fa' = forall groups over all objects"""
    act = W.action(a)
    b = interp.binding(act, args)
    fp = {k: set() for k in ("add", "del", "write", "pre_pos", "pre_neg", "pre_fl", "rhs", "cond_atoms", "cond_fl",
                             "fa_add", "fa_del", "fa_write", "fa_atoms", "fa_fl")}
    _reads(act["pre"], b, fp["pre_pos"], fp["pre_neg"], fp["pre_fl"], W)

    def simple(effs, bb, pre=""):
        for e in effs:
            if e[0] == "add":
                fp[pre + "add"].add(_ground_atom(e[1], bb))
            elif e[0] == "del":
                fp[pre + "del"].add(_ground_atom(e[1], bb))
            elif e[0] == "num":
                fp[pre + "write"].add((e[2][1],) + tuple(bb.get(x, x) for x in e[2][2]))
                _expr_reads(e[3], bb, fp["rhs"] if not pre else fp["fa_fl"])

    simple([e for e in act["eff"] if e[0] in ("add", "del", "num")], b)
    for e in act["eff"]:
        if e[0] == "when":
            pos, neg = set(), set()
            _reads(e[1], b, pos, neg, fp["cond_fl"], W)
            fp["cond_atoms"] |= pos | neg
            simple(e[2], b)
        elif e[0] == "forall":
            for o, ty in W.objs.items():
                if interp.is_sub(W.D["types"], ty, e[2]):
                    bb = {**b, e[1]: o}
                    pos, neg = set(), set()
                    _reads(e[3][1], bb, pos, neg, fp["fa_fl"], W)
                    fp["fa_atoms"] |= pos | neg
                    simple(e[3][2], bb, "fa_")
    return fp


def classify(W, members, S):
    """why a joint step is not serialisable: feature tags used to tell the recorded findings from anything new.
    cause = 'checked' when the interference is one the converter's own test is supposed to catch (add/delete or
    write/write among unconditional and when-effects)."""
    fps = [footprint(W, a, args) for a, args in members]
    causes = set()
    for i, x in enumerate(fps):
        for j, y in enumerate(fps):
            if i == j:
                continue
            if x["add"] & y["del"] or (i < j and x["write"] & y["write"]):
                causes.add("checked")
            if x["pre_pos"] & y["del"] or x["pre_neg"] & y["add"] or x["pre_fl"] & y["write"]:
                causes.add("precondition-vs-effect")
            if x["rhs"] & y["write"]:
                causes.add("rhs-read")
            if x["cond_atoms"] & (y["add"] | y["del"]) or x["cond_fl"] & y["write"]:
                causes.add("when-condition")
            ywr_atoms = y["add"] | y["del"] | y["fa_add"] | y["fa_del"]
            ywr_fl = y["write"] | y["fa_write"]
            xall_atoms = x["add"] | x["del"] | x["pre_pos"] | x["pre_neg"] | x["cond_atoms"]
            xall_fl = x["write"] | x["pre_fl"] | x["rhs"] | x["cond_fl"]
            if (x["fa_atoms"] | x["fa_add"] | x["fa_del"]) & ywr_atoms or (x["fa_fl"] | x["fa_write"]) & ywr_fl \
                    or (y["fa_add"] | y["fa_del"]) & xall_atoms or y["fa_write"] & xall_fl:
                causes.add("forall-effect")
    if "checked" in causes:
        cause = "checked"
    elif not causes:
        cause = "unexplained"
    else:
        cause = sorted(causes)[0] if len(causes) == 1 else "several-unchecked"
    return {"cause": cause, "causes": sorted(causes)}
