"""C14 - states behave as values: equality, copy and serialization agree.

Simulation dimension: history - how each state of a pool was built (problem parser on a permuted init section,
trajectory parser on a serialization with/without the object table, copy, successor, copy followed by mutation through
the library's own mutators) and who was mutated after a copy; S1 hash schedule.
Oracle after every operation: abstract value model (set of facts, map of fluents) for every live state."""
from sim.engine import Violation, Skip
from ref import interp, sexpr
from gen import pddl as G
from . import common as C
from .common import L

ID = "C14"
RUNS = {"quick": 12_000, "thorough": 300_000}
BUDGET_S = {"quick": 120, "thorough": 800}
CHUNK = 150
RULE = ("each run grows a pool of <= 8 State objects over one generated (domain, problem) by 6-20 tape-drawn operations "
        "(parse problem text with permuted init, parse a serialization with the trajectory parser with/without objects, "
        "copy, successor, copy-then-mutate via set_value / fact add / fact discard / fluent re-assignment); after every "
        "operation all pairs are compared with == (both directions) against abstract equality, every state's serialization is "
        "read by the reference reader, and serializations are read back by the library and compared; non-trivial = the pool "
        "contains two states with equal value built by different routes and two with different values, and a mutation "
        "happened; distinct = distinct history digests")
ASSUMPTIONS = ["abstract value = (set of ground atoms, map fluent -> number); -0.0 and 0.0 are the same number",
               "mutation goes through the library's own mutators and containers (set_value, add/discard on a fact set, "
               "assignment into state_fluents), never through private dicts of a fact"]
REAL_VS_STUB = {"real": ["State.__eq__/copy/serialize, ProblemParser, TrajectoryParser.parse_state, PDDLTokenizer, "
                         "Operator.apply, GroundedPredicate, PDDLFunction"], "stub": ["__hash__ seam"]}
TECHNIQUE = "deterministic simulation: seeded construction/mutation histories over a pool of states (five routes incl. merged), kept parsers with aborted readings; abstract value model checked after every step"
DESIGN_REF = "DESIGN.md §5 C14"
LEVEL_TEXT = ("seeded exploration of construction and mutation histories; an abstract value model is maintained for every live "
              "state and all pairs are checked after every operation; sampling, not proof")
LEVEL_NOTE = "trusts the abstract value model and the reference reader; small universes (2-5 objects)"


def random_state(t, W):
    """an abstract state over the world's universe: each possible fact with probability 1/3, every fluent defined"""
    import itertools
    facts = set()
    for p, sig in W.D["predicates"].items():
        for combo in itertools.product(*[G.objects_of(W.D, W.objs, ty) for ty in sig]):
            if t.chance(1, 3):
                facts.add((p,) + combo)
    fl = {k: t.num(9, 0.5) for k in W.P["fluents"]}
    return (frozenset(facts), fl)


def run(ctx):
    feat = C.draw_features(ctx, allow=("subtypes", "constants", "neg", "numeric", "when"))
    feat["forall_eff"] = False
    feat["hard_numbers"] = ctx.s("cfg").chance(1, 3)
    W = C.World(ctx, feat)
    ops = ctx.s("ops")
    g3 = None
    if ctx.s("cfg").chance(1, 4):
        # a numeric function of arity 4.  The library keys a grounded fluent by its name and its DISTINCT arguments, so two
        # groundings over the same objects with different repetitions cannot live in one state (a limitation outside the
        # claimed properties); each state therefore defines a collision-free subset of the groundings - different states
        # define different ones
        tys = [ty for ty in W.D["types"] if len(G.objects_of(W.D, W.objs, ty)) >= 2]
        if tys:
            ty = ops.pick(tys)
            W.D["functions"]["g4"] = [ty, ty, ty, ty]
            W.dom_text = W.dom_text_plain = G.render_domain(W.D)
            g3 = G.objects_of(W.D, W.objs, ty)
            ctx.probes["arity4_function"] += 1
    try:
        d, p, s_init = C.lib_world(ctx, W)
    except Exception as e:
        raise Violation("C14/generated-input-rejected", "DomainParser/ProblemParser", f"{type(e).__name__}: {e}")
    # the same domain declared with other parameter names in its predicate / function declarations (an observer's copy
    # of the domain): states built through it denote the same values
    try:
        d_alt = C.parse_domain(ctx, G.render_domain(W.D, decl_var="?w"), "domain-alt.pddl")
        p_alt = C.parse_problem(ctx, W.problem_text(), d_alt, "problem-alt.pddl")
    except Exception as e:
        raise Violation("C14/generated-input-rejected", "DomainParser/ProblemParser", f"{type(e).__name__}: {e}")
    pool = []  # [state, abstract, route]
    parsers = {}  # kept TrajectoryParser objects
    values = [interp.init_state(W.P)]
    for _ in range(1 + ops.draw(2)):
        values.append(random_state(ops, W))
    if g3:
        def with_g3(A):
            fl = dict(A[1])
            used = set()
            for _ in range(1 + ops.draw(3)):
                x, y = ops.pick(g3), ops.pick(g3)
                if x == y:
                    continue
                # shapes the library can represent (repeated arguments first, grouped): x x y y / x x x y / x x x x
                args = [(x, x, y, y), (x, x, x, y), (x, x, x, x)][ops.draw(3)]
                key = tuple(dict.fromkeys(args))  # the library's dictionary key: distinct arguments in order
                if key in used:
                    continue
                used.add(key)
                fl[("g4",) + args] = ops.pick([7.0, 7.0, -1.5])
            return (A[0], fl)
        def twin(A):
            """the same state except that ONE grounding of g4 is replaced by another grounding over the same distinct
            objects (x x y y <-> x x x y): a different value that only a reader of the full argument list can tell"""
            ks = sorted(k for k in A[1] if k[0] == "g4" and len(set(k[1:])) == 2)
            if not ks:
                return None
            k = ops.pick(ks)
            x, y = list(dict.fromkeys(k[1:]))
            other = ("g4", x, x, x, y) if k[1:] == (x, x, y, y) else ("g4", x, x, y, y)
            fl = dict(A[1])
            v = fl.pop(k)
            fl[other] = v
            return (A[0], fl)

        values = [values[0]] + [with_g3(v) for v in values[1:]] + [with_g3(values[0]), with_g3(values[0])]
        values += [tw for tw in (twin(v) for v in list(values)) if tw is not None]

    def add(st, A, route):
        pool.append([st, A, route])
        ctx.probes[f"route_{route.split(':')[0]}"] += 1

    add(s_init, values[0], "problem")
    nops = 6 + ops.draw(15)
    mutated = 0
    for step in range(nops):
        kind = ops.draw(9)
        if len(pool) >= 8:
            kind = 6 + ops.draw(2)  # only mutate / re-check when the pool is full
        if kind == 8:
            # completion in place: the facts of another state with the same value (usually built by another route,
            # so the fact objects may carry other type annotations) are united into a copy, set by set
            src = ops.pick(pool)
            same = [e for e in pool if interp.state_eq(e[1], src[1])]
            other = ops.pick(same)
            m = src[0].copy()
            for key, facts in other[0].state_predicates.items():
                m.state_predicates.setdefault(key, set()).update(facts)
            alt = "alt-domain" in src[2] or "alt-domain" in other[2]
            add(m, src[1], "merged" + ("+alt-domain" if alt else ""))
            ctx.log("op", step, kind, len(pool))
            check_pool(ctx, pool, d, p, step)
            continue
        if kind == 0:  # problem parser, permuted init section
            A = ops.pick(values)
            alt = ops.chance(1, 3)
            try:
                pr = C.parse_problem(ctx, W.problem_text(A, order=ops), d_alt if alt else d, f"p{step}.pddl")
            except Exception as e:
                raise Violation("C14/generated-input-rejected", "ProblemParser", f"{type(e).__name__}: {e}")
            add(C.initial_state(pr), A, "problem" + (":alt-domain" if alt else ""))
        elif kind in (1, 2):  # trajectory parser on the serialization of a pool member
            src = ops.pick(pool)
            with_objects = kind == 1
            alt = ops.chance(1, 3)
            try:
                ast = L().PDDLTokenizer(pddl_str=src[0].serialize()).parse()
                # the run keeps one parser object per configuration (a reader is normally kept for many states)
                key = (alt, with_objects)
                tp = parsers.get(key)
                if tp is None:
                    tp = parsers[key] = L().TrajectoryParser(d_alt if alt else d,
                                                             (p_alt if alt else p) if with_objects else None)
                if ops.chance(1, 4):
                    # fault: a reading that fails half-way (legal components, then one the domain does not know); the
                    # caller catches the error and goes on using the parser
                    other_ast = L().PDDLTokenizer(pddl_str=ops.pick(pool)[0].serialize()).parse()
                    bad = list(other_ast[1:]) + [[["no-such-predicate", "o1"], ["p0"], ["=", ["no-such-function"], "1"]][ops.draw(3)]]
                    try:
                        tp.parse_state(bad)
                        ctx.probes["malformed_state_accepted"] += 1
                    except Exception:
                        ctx.faults["state_reading_aborted"] += 1
                st = tp.parse_state(ast[1:])
            except Exception as e:
                raise Violation("C14/serialization-not-readable-by-library", "TrajectoryParser.parse_state",
                                f"{type(e).__name__}: {e}: {C.short(src[0].serialize(), 160)}")
            add(st, src[1], "trajectory" + (":objects" if with_objects else ":deduced") + (
                "+alt-domain" if alt or "alt-domain" in src[2] else ""))
        elif kind == 3:  # copy
            src = ops.pick(pool)
            add(src[0].copy(), src[1], "copy" + ("+alt-domain" if "alt-domain" in src[2] else "") + (
                "<-merged" if "merged" in src[2] else ""))
        elif kind in (4, 5):  # successor (of a state that was built through the operator's own domain object)
            # (not of a state into which the harness itself united duplicate fact objects: deleting a fact from it
            # is the caller's business)
            cands = [e for e in pool if "alt-domain" not in e[2] and "merged" not in e[2]]
            if not cands:
                continue
            src = ops.pick(cands)
            r = None
            for _ in range(5):
                c = G.gen_call(ops, W.D, W.P)
                if c is None:
                    continue
                try:
                    if interp.applicable(src[1], W.action(c[0]), c[1], W.D, W.objs):
                        interp.successor(src[1], W.action(c[0]), c[1], W.D, W.objs)
                        r = c
                        break
                except (interp.Inconsistent, interp.Undefined):
                    pass
            if r is None:
                continue
            op = L().Operator(d.actions[r[0]], d, list(r[1]), p.objects)
            try:
                st = op.apply(src[0])
            except Exception as e:
                ctx.probes["successor_raised"] += 1
                continue
            add(st, C.abs_state(st, "Operator.apply", ID), "successor")
            values.append(pool[-1][1])
        else:  # copy-then-mutate (or mutate an existing member in place)
            src = ops.pick([e for e in pool if "merged" not in e[2]])
            if ops.chance(2, 3) and len(pool) < 8:
                target = [src[0].copy(), src[1], "mutated-copy" + ("+alt-domain" if "alt-domain" in src[2] else "")]
                pool.append(target)
            else:
                target = src
            newA = mutate(ctx, ops, W, d, target)
            if newA is not None:
                target[1] = newA
                mutated += 1
        ctx.log("op", step, kind, len(pool))
        check_pool(ctx, pool, d, p, step)
    eq_pairs = sum(1 for i in range(len(pool)) for j in range(i) if interp.state_eq(pool[i][1], pool[j][1])
                   and pool[i][2] != pool[j][2])
    ne_pairs = sum(1 for i in range(len(pool)) for j in range(i) if not interp.state_eq(pool[i][1], pool[j][1]))
    ctx.nontrivial = eq_pairs > 0 and ne_pairs > 0 and mutated > 0
    ctx.sample = {"routes": [r for _, _, r in pool], "values_distinct": len({repr(sorted(a[0])) + repr(sorted(a[1].items()))
                                                                              for _, a, _ in pool}),
                  "mutations": mutated, "example_state": pool[-1][0].serialize().strip()[:200]}
    ctx.steps += nops


def mutate(ctx, ops, W, d, target):
    st, A, _ = target
    facts, fl = set(A[0]), dict(A[1])
    m = ops.draw(4)
    if m == 0 and st.state_fluents:  # set_value on a fluent object of this state
        key = ops.pick(sorted(st.state_fluents))
        fn = st.state_fluents[key]
        k = (fn.name,) + tuple(_args(fn))
        v = ops.num(9, 0.5)
        fn.set_value(v)
        fl[k] = v
        ctx.probes["mut_set_value"] += 1
    elif m == 1 and st.state_fluents:  # replace the fluent object by a fresh copy with another value
        key = ops.pick(sorted(st.state_fluents))
        fn = st.state_fluents[key].copy()
        v = ops.num(9, 0.5)
        fn.set_value(v)
        st.state_fluents[key] = fn
        fl[(fn.name,) + tuple(_args(fn))] = v
        ctx.probes["mut_reassign"] += 1
    elif m == 2:  # discard a fact
        groups = [(k, g) for k, g in sorted(st.state_predicates.items()) if g]
        if not groups:
            return None
        k, g = ops.pick(groups)
        pr = sorted(g, key=lambda x: x.untyped_representation)[ops.draw(len(g))]
        g.discard(pr)
        facts.discard((pr.name,) + tuple(pr.object_mapping[q] for q in pr.signature))
        ctx.probes["mut_discard"] += 1
    else:  # add a fact (a ground atom that is absent)
        import itertools
        cands = []
        for pn, sig in sorted(W.D["predicates"].items()):
            for combo in itertools.product(*[G.objects_of(W.D, W.objs, ty) for ty in sig]):
                if (pn,) + combo not in facts:
                    cands.append((pn, combo))
        if not cands:
            return None
        pn, combo = ops.pick(cands)
        lifted = d.predicates[pn]
        gp = L().models.GroundedPredicate(name=pn, signature=dict(lifted.signature),
                                          object_mapping=dict(zip(lifted.signature, combo)))
        st.state_predicates.setdefault(lifted.untyped_representation, set()).add(gp)
        facts.add((pn,) + combo)
        ctx.probes["mut_add"] += 1
    return (frozenset(facts), fl)


def _args(fn):
    from ref.walker import fn_args
    return fn_args(fn)


def check_pool(ctx, pool, d, p, step):
    # every member still has its recorded value (copy independence, no shared containers)
    texts = []
    for i, (st, A, route) in enumerate(pool):
        got = C.abs_state(st, f"pool[{i}] ({route})", ID, caller_made_duplicates="merged" in route)
        if not interp.state_eq(got, A):
            raise Violation("C14/state-value-changed", f"State built by {route}",
                            f"after operation {step}: pool[{i}] {interp.state_diff(got, A)}",
                            {"route": route.split(":")[0]})
        texts.append(st.serialize())
    n = len(pool)
    for i in range(n):
        for j in range(i + 1):
            want = interp.state_eq(pool[i][1], pool[j][1])
            a, b = pool[i][0], pool[j][0]
            try:
                g1, g2 = (a == b), (b == a)
            except Exception as e:
                raise Violation("C14/eq-raised", "State.__eq__", f"{type(e).__name__}: {e}")
            if bool(g1) != want or bool(g2) != want:
                raise Violation("C14/eq-disagrees-with-value", "State.__eq__",
                                f"pool[{i}] ({pool[i][2]}) == pool[{j}] ({pool[j][2]}) -> {g1}/{g2}, values equal: {want}; "
                                f"{C.short(texts[i], 120)} vs {C.short(texts[j], 120)}",
                                {"routes": sorted({pool[i][2].split(':')[0], pool[j][2].split(':')[0]}),
                                 "negzero": negzero(pool[i][1], pool[j][1])})
            ctx.probes["pairs_equal" if want else "pairs_unequal"] += 1
    # read back: serializations of equal states read back as equal states, unequal never do
    tp = L().TrajectoryParser(d, p)
    back = []
    for i, tx in enumerate(texts):
        try:
            ast = L().PDDLTokenizer(pddl_str=tx).parse()
            back.append(tp.parse_state(ast[1:]))
        except Exception as e:
            raise Violation("C14/serialization-not-readable-by-library", "TrajectoryParser.parse_state",
                            f"{type(e).__name__}: {e}: {C.short(tx, 160)}")
    for i in range(n):
        if not (back[i] == pool[i][0]):
            raise Violation("C14/readback-differs", "serialize -> parse_state",
                            f"pool[{i}] ({pool[i][2]}): {C.short(texts[i], 160)} read back as "
                            f"{C.short(back[i].serialize(), 160)}", {"negzero": negzero(pool[i][1], pool[i][1])})
        for j in range(i):
            want = interp.state_eq(pool[i][1], pool[j][1])
            if bool(back[i] == back[j]) != want:
                raise Violation("C14/readback-eq-disagrees", "serialize -> parse_state -> ==",
                                f"pool[{i}] vs pool[{j}]: read-back equality {not want}, values equal: {want}",
                                {"negzero": negzero(pool[i][1], pool[j][1])})


def negzero(A, B):
    import math
    return any(v == 0 and math.copysign(1, v) < 0 for v in list(A[1].values()) + list(B[1].values()))
