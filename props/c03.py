"""C03 - applying an action yields exactly the PDDL successor state, whatever the internal processing order.

Simulation dimension (S1): the same call on the same state is executed under K tape-drawn hash schedules (every
library object re-created per schedule) and on a re-used Operator object (history).  Oracle: reference transition
function (ref/interp.py); the returned state is observed through serialize() read by the independent reader and through
the structural walker."""
from sim.engine import Violation, Skip
from ref import interp
from gen import pddl as G
from . import common as C
from .common import L

ID = "C03"
RUNS = {"quick": 36_000, "thorough": 700_000}
BUDGET_S = {"quick": 120, "thorough": 800}
CHUNK = 300
RULE = ("each run draws a (domain, problem), a state reached by a reference random walk, and an applicable consistent "
        "call; the call is applied under 3-6 hash schedules x the four (allow_inapplicable_actions, skip_validation) "
        "combinations, plus on a re-used Operator (s, s2, s again); non-trivial = the call changes the state and at "
        "least one conditional/universal group exists or >= 2 effects fire; distinct = distinct history digests "
        "(domain text, state, call, flags, results)")
ASSUMPTIONS = ["ref/interp.py is the PDDL 2.1 level-2 transition function (effects collected and right-hand sides "
               "evaluated in the pre-state; delete then add)",
               "calls whose simultaneously firing effects are inconsistent (fluent written twice, atom added by one group "
               "and deleted by another) are outside the property's quantifier and skipped",
               "generated numbers are dyadic rationals, so float arithmetic is exact; function arity <= 2"]
REAL_VS_STUB = {"real": ["DomainParser, ProblemParser, Operator.ground/apply, GroundedEffect, GroundedPrecondition, "
                         "State.copy/serialize (all of pddl_plus_parser)"],
                "stub": ["__hash__ of set members (contract-preserving, tape-salted)", "nothing else"]}
TECHNIQUE = "deterministic simulation: seeded hash-schedule (effect processing order), operator histories (re-use, own output, interrupted first use, observer inspection, object added / type re-parented in place) and worker environments (EPSILON=0, python -O, NUMERIC_PRECISION=3) vs reference transition function"
DESIGN_REF = "DESIGN.md §5 C03, §3.2"
LEVEL_TEXT = ("seeded exploration: each generated (state, call) is executed under several tape-chosen iteration orders of the "
              "library's effect sets and flag combinations and compared fact-by-fact and fluent-by-fluent with an independent "
              "reference successor; sampling of inputs and schedules, not exhaustive")
LEVEL_NOTE = "trusts the reference interpreter; supported fragment only (nested or/and, forall and unwrapped preconditions included; no numeric comparison inside a nested condition)"

FLAGS = [(False, False), (True, False), (False, True), (True, True)]


def run(ctx):
    feat = C.draw_features(ctx)
    if ctx.s("deep").draw(10) == 0:
        feat["deep_types"] = True  # type chains of 9-12 levels (own stream: the other draws are unchanged)
        ctx.probes["deep_type_chain"] += 1
    # disjunctive / universal preconditions: drawn by draw_features for every check; this check asks for them more often
    nested = ctx.s("cfg").draw(4)
    if nested == 0:
        feat["or_pre"] = True
    elif nested == 1:
        feat["forall_pre"] = True
    W = C.World(ctx, feat)
    ops = ctx.s("ops")
    S, trail = C.ref_walk(ctx, W, ops.draw(4))
    r = C.pick_applicable_call(ctx, W, S, ops)
    if r is None:
        ctx.probes["no_applicable_call"] += 1
        raise Skip()
    S_walk = S
    S, call, want, info = r
    history_ok = interp.state_eq(S, S_walk) and bool(trail)
    aname, args = call
    act = W.action(aname)
    ctx.log("input", W.dom_text_plain, sorted(S[0]), sorted(S[1].items()), aname, tuple(args))
    ctx.sample = {"action": G.r_e(("when", act["pre"], act["eff"])) if False else
                  {"params": act["params"], "pre": G.r_f(act["pre"]), "eff": [G.r_e(e) for e in act["eff"]]},
                  "call": C.fmt_call(aname, args), "state_facts": sorted(S[0])[:12],
                  "state_fluents": sorted(S[1].items())[:8], "reference_info": info}
    n_groups = sum(1 for e in act["eff"] if e[0] == "when") + info["forall_inst"] + 1
    changed = not interp.state_eq(S, want)
    ctx.nontrivial = changed and (n_groups > 1 or info["n_adds"] + info["n_dels"] + info["n_nums"] >= 2)
    for k in ("when_true", "when_false", "forall_inst", "forall_fired"):
        if info[k]:
            ctx.probes[k] += 1
    if info["groups_fired"] >= 2:
        ctx.probes["ge2_groups_fired"] += 1
    if len(set(args)) < len(args):
        ctx.probes["repeated_call_object"] += 1
    if any(a in W.D["constants"] for a in args):
        ctx.probes["constant_as_argument"] += 1
    if info["forall_inst"] and any(ty != e[2] for e in act["eff"] if e[0] == "forall"
                                   for o, ty in W.objs.items() if interp.is_sub(W.D["types"], ty, e[2])):
        ctx.probes["forall_over_subtype_or_constant"] += 1
    if interp.reads_written(act, S, args, W.D, W.objs):
        ctx.probes["multi_group_numeric_write"] += 1

    K = 3 + ctx.s("cfg").draw(4)
    orders = set()
    ctx.merge_foralls = ctx.s("cfg").draw(3) == 0  # the parsed model is edited through the object API (same meaning)
    for k in range(K):
        if k:
            ctx.new_epoch()
        site = f"Operator.apply schedule#{k}"
        # the input state is built by one of three histories: problem parser (facts annotated with the predicates'
        # declared types), the library's own transitions from the initial state (facts annotated with the types of
        # the adding actions' parameters), trajectory parser (facts annotated with the objects' own types)
        route = 0 if k == 0 else ctx.s("ops").draw(4)
        if route == 1 and history_ok:
            d, p, s0 = lib(ctx, W, None, f"-{k}")
            cur = interp.init_state(W.P)
            for (ta, targs) in trail:
                try:
                    s0 = L().Operator(d.actions[ta], d, list(targs), p.objects).apply(s0)
                except Exception as e:
                    raise Violation("C03/applicable-action-raised", "Operator.apply (history)",
                                    f"{C.fmt_call(ta, targs)}: {type(e).__name__}: {e}")
                cur, _ = interp.successor(cur, W.action(ta), targs, W.D, W.objs)
                compare(ctx, C.abs_state(s0, "Operator.apply (history)", ID), cur, "Operator.apply (history)", "",
                        W, cur, (ta, targs))
            ctx.probes["input_state_by_history"] += 1
        elif route == 3:
            # a state object that was queried (serialized, tested for applicability) while it denoted a NEIGHBOUR state
            # and was then edited in place, through the library's own containers and mutators, into the state wanted
            S_near = neighbour(ctx.s("ops"), S)
            d, p, s0 = lib(ctx, W, S_near, f"-{k}")
            s0.serialize()
            try:
                L().Operator(d.actions[aname], d, list(args), p.objects).is_applicable(s0)
            except Exception:
                pass
            edit_in_place(d, s0, S_near, S)
            ctx.probes["input_state_edited_in_place"] += 1
        elif route == 2:
            d, p, _ = lib(ctx, W, None, f"-{k}")
            text = "(:state " + " ".join("(" + " ".join(f) + ")" for f in sorted(S[0])) + " " + " ".join(
                f"(= ({' '.join(kk)}) {G.r_num(v)})" for kk, v in S[1].items()) + ")"
            try:
                ast = L().PDDLTokenizer(pddl_str=text).parse()
                s0 = L().TrajectoryParser(d, p).parse_state(ast[1:])
            except Exception as e:
                raise Violation("C03/generated-input-rejected", "TrajectoryParser.parse_state", f"{type(e).__name__}: {e}")
            ctx.probes["input_state_by_trajectory_parser"] += 1
        else:
            d, p, s0 = lib(ctx, W, S, f"-{k}")
        flags = FLAGS[ctx.s("ops").draw(4)] if k else FLAGS[0]
        op = L().Operator(d.actions[aname], d, list(args), p.objects)
        if k and ctx.s("sched").draw(5) == 0:
            # fault: the caller's first use of the operator object is interrupted at a tape-chosen line (or completes,
            # when the line lies beyond the call); the object is then used for the call under test
            first = [lambda: op.apply(s0.copy(), allow_inapplicable_actions=flags[0], skip_validation=flags[1]),
                     lambda: op.is_applicable(s0), op.ground][ctx.s("sched").draw(3)]
            if C.interrupted(ctx, first):
                ctx.probes["first_use_interrupted"] += 1
        if k and ctx.s("sched").draw(5) == 0:
            # an observer reads the grounded operator before it is used (every public property and printed form of the
            # operator, its grounded effects and their literals): reading must change nothing
            try:
                op.ground()
            except Exception:
                pass
            C.inspect_object(op, depth=4)
            ctx.probes["operator_inspected_before_use"] += 1
        rec = []
        got = apply(ctx, op, s0, flags, site, rec)
        orders.add(tuple(rec))
        if len(rec) > 1:
            ctx.measure("effect_group_application_orders (per input)", (W.dom_text_plain, aname, tuple(args), tuple(rec)))
        compare(ctx, got, want, site, f"flags={flags}", W, S, call)
        ctx.log("result", k, flags, "ok")
        if k == K - 1:
            # history: re-use the operator object on another state, then on the first one again
            S2, _ = C.ref_walk(ctx, W, 1 + ops.draw(2), ops)
            d2, p2, s2 = lib(ctx, W, S2, "-other")
            try:
                r2 = op.apply(s2, allow_inapplicable_actions=True)
                ok2 = True
            except Exception as e:
                ok2 = False
                ctx.probes["reuse_other_state_raised"] += 1
            if ok2:
                try:
                    if interp.applicable(S2, act, args, W.D, W.objs):
                        want2, _ = interp.successor(S2, act, args, W.D, W.objs)
                        compare(ctx, C.abs_state(r2, site + " reuse/other", ID), want2,
                                "Operator.apply (re-used operator, other state)", "", W, S2, call)
                        ctx.probes["reuse_other_state_checked"] += 1
                except (interp.Inconsistent, interp.Undefined):
                    pass
            # feed the operator its own output: r1 = op(s), r2 = op(r1), r3 = op(r2) - each must be the successor
            s_own = lib(ctx, W, S, "-own")[2]
            cur_ref = S
            for hop in range(3):
                try:
                    if not interp.applicable(cur_ref, act, args, W.D, W.objs):
                        break
                    nxt_ref, _ = interp.successor(cur_ref, act, args, W.D, W.objs)
                except (interp.Inconsistent, interp.Undefined):
                    break
                if interp.too_large(nxt_ref):
                    break
                s_own = apply_raw(op, s_own, "Operator.apply (re-used operator, own output)")
                compare(ctx, C.abs_state(s_own, "Operator.apply (own output)", ID), nxt_ref,
                        "Operator.apply (re-used operator, own output)", f"hop {hop}", W, cur_ref, call)
                cur_ref = nxt_ref
                ctx.probes["reuse_own_output_checked"] += 1
            d3, p3, s3 = lib(ctx, W, S, "-again")
            # the operator first answers an applicability query (or is refused) on the OTHER state; the flags of the call
            # that follows are drawn, so validation may be skipped
            try:
                op.is_applicable(s2)
                if ops.chance(1, 2):
                    op.apply(s2)
            except Exception:
                pass
            got3 = apply(ctx, op, s3, FLAGS[ops.draw(4)], "Operator.apply (re-used operator, first state again)", [])
            compare(ctx, got3, want, "Operator.apply (re-used operator, first state again)", "", W, S, call)
            ctx.probes["reuse_checked"] += 1
            # history: the problem gains an object (added in place to the table the operator was given) and the used
            # operator is applied once more; quantified effects and conditions range over the objects as they are NOW
            if ops.chance(1, 4):
                # history: the type hierarchy of the operator's domain is revised in place (a type moved below another
                # type) and the used operator is applied once more: quantifiers range over the hierarchy as it is NOW
                r = C.revise_model(ctx, W, d, ops, kinds=("reparent_type",))
                if r:
                    W2, what = r
                    try:
                        ok5 = interp.applicable(S, W2.action(aname), args, W2.D, W2.objs)
                        want5 = interp.successor(S, W2.action(aname), args, W2.D, W2.objs)[0] if ok5 else None
                    except (interp.Inconsistent, interp.Undefined):
                        ok5 = False
                    if ok5:
                        s5 = lib(ctx, W, S, "-reparented")[2]
                        got5 = apply(ctx, op, s5, FLAGS[0], "Operator.apply (re-used operator, a type was re-parented)", [])
                        compare(ctx, got5, want5, "Operator.apply (re-used operator, a type was re-parented)", what, W2, S, call)
                        ctx.probes["reuse_after_type_reparented"] += 1
                        if not interp.state_eq(want5, want):
                            ctx.probes["reparenting_changes_successor"] += 1
            elif ops.chance(1, 4):
                # history: the action schema is revised in place (an effect added or removed), the kept operator is
                # grounded again through its public ground() and applied: it must follow the schema as it is NOW
                r = C.revise_model(ctx, W, d, ops, kinds=("drop_effect", "add_effect"))
                if r and r[1].startswith(aname + ":"):
                    W2, what = r
                    try:
                        ok6 = interp.applicable(S, W2.action(aname), args, W2.D, W2.objs)
                        want6 = interp.successor(S, W2.action(aname), args, W2.D, W2.objs)[0] if ok6 else None
                    except (interp.Inconsistent, interp.Undefined):
                        ok6 = False
                    if ok6:
                        site6 = "Operator.ground + apply (re-used operator, the schema was revised in place)"
                        try:
                            op.ground()
                        except Exception as e:
                            raise Violation("C03/applicable-action-raised", site6, f"{what}: {type(e).__name__}: {e}")
                        got6 = apply(ctx, op, lib(ctx, W, S, "-revised")[2], FLAGS[0], site6, [])
                        compare(ctx, got6, want6, site6, what, W2, S, call)
                        ctx.probes["reground_after_schema_revision"] += 1
            elif ops.chance(1, 3):
                types = [ty for ty in W.D["types"] if ty not in W.D.get("implicit_types", ())]
                ty = ops.pick(types) if types else None
                objs2 = {**W.objs, "znew": ty} if ty else None
                try:
                    grown = ty is not None and interp.applicable(S, act, args, W.D, objs2)
                    want4 = interp.successor(S, act, args, W.D, objs2)[0] if grown else None
                except (interp.Inconsistent, interp.Undefined):
                    grown = False
                if grown:
                    from pddl_plus_parser.models import PDDLObject
                    p.objects["znew"] = PDDLObject(name="znew", type=d.types[ty])
                    s4 = lib(ctx, W, S, "-grown")[2]
                    got4 = apply(ctx, op, s4, FLAGS[0], "Operator.apply (re-used operator, an object was added)", [])
                    compare(ctx, got4, want4, "Operator.apply (re-used operator, an object was added)",
                            f"znew - {ty}", W, S, call)
                    ctx.probes["reuse_after_object_added"] += 1
                    if not interp.state_eq(want4, want):
                        ctx.probes["added_object_changes_successor"] += 1
    ctx.probes[f"distinct_group_orders_{min(len(orders), 4)}"] += 1
    ctx.steps += K


def lib(ctx, W, S, tag):
    try:
        d, p, s0 = C.lib_world(ctx, W, S, tag=tag)
        if getattr(ctx, "merge_foralls", False):
            C.merge_foralls(ctx, d)
        return d, p, s0
    except Exception as e:
        raise Violation("C03/generated-input-rejected", "DomainParser/ProblemParser",
                        f"{type(e).__name__}: {e}")


def apply(ctx, op, s0, flags, site, rec):
    import pddl_plus_parser.models.grounded_effect as ge
    orig = ge.GroundedEffect.apply

    def spy(self, *a, **kw):
        rec.append((self.grounded_antecedents is not None, len(self.grounded_discrete_effects),
                    len(self.grounded_numeric_effects)))
        return orig(self, *a, **kw)

    ge.GroundedEffect.apply = spy
    try:
        try:
            r = op.apply(s0, allow_inapplicable_actions=flags[0], skip_validation=flags[1])
        except Exception as e:
            raise Violation("C03/applicable-action-raised", site, f"flags={flags}: {type(e).__name__}: {e}")
    finally:
        ge.GroundedEffect.apply = orig
    return C.abs_state(r, site, ID)


def neighbour(t, S):
    """S with one or two facts flipped and one fluent changed"""
    facts = set(S[0])
    fl = dict(S[1])
    for f in sorted(facts)[:8]:
        if t.chance(1, 4):
            facts.discard(f)
    for k in sorted(fl)[:6]:
        if t.chance(1, 3):
            fl[k] = fl[k] + 1.5
    return (frozenset(facts), fl)


def edit_in_place(d, st, S_from, S_to):
    """turn the library state (currently denoting S_from, same universe) into S_to by editing its containers"""
    from ref.walker import fn_args
    for f in S_to[0] - S_from[0]:
        lifted = d.predicates[f[0]]
        gp = L().models.GroundedPredicate(name=f[0], signature=dict(lifted.signature),
                                          object_mapping=dict(zip(lifted.signature, f[1:])))
        st.state_predicates.setdefault(lifted.untyped_representation, set()).add(gp)
    for f in S_from[0] - S_to[0]:
        for group in st.state_predicates.values():
            for gp in list(group):
                if (gp.name,) + tuple(gp.object_mapping[q] for q in gp.signature) == f:
                    group.discard(gp)
    for fn in st.state_fluents.values():
        k = (fn.name,) + tuple(fn_args(fn))
        if k in S_to[1] and S_to[1][k] != fn.stored_value:
            fn.set_value(S_to[1][k])


def apply_raw(op, st, site):
    try:
        return op.apply(st)
    except Exception as e:
        raise Violation("C03/applicable-action-raised", site, f"{type(e).__name__}: {e}")


def compare(ctx, got, want, site, extra, W, S, call):
    if not interp.state_eq(got, want):
        act = W.action(call[0])
        ctx.note(f"action {call[0]}: pre={G.r_f(act['pre'])} eff={[G.r_e(e) for e in act['eff']]}")
        ctx.note(f"call {C.fmt_call(*call)} in state facts={sorted(S[0])} fluents={sorted(S[1].items())}")
        raise Violation("C03/successor-differs", site.split(" schedule#")[0],
                        f"{extra} {C.fmt_call(*call)}: {interp.state_diff(got, want)}")
