"""C08 - exporting a domain and parsing it back preserves vocabulary and behaviour.

Simulation dimension: S1 (the exporter iterates hash sets: every round runs under a fresh tape-drawn hash schedule),
S5 (the export is a truncate-then-write of one file: ENOSPC/EIO after k bytes, crash after k bytes, read error on the
re-parse; then a fault-free retry).  Oracle: the structural walker turns the domain before export and the re-parsed one
into reference ASTs; vocabulary must be equal, actions canonically equal or behaviourally equal under the reference
interpreter; the reference reading of the exported text must agree too.  Unacknowledged export => re-parse raises or
yields the same domain; after faults stop one retry succeeds."""
import errno
import itertools

from sim import fs
from sim.engine import Violation, Skip
from ref import interp, sexpr, pddl_reader, walker
from gen import pddl as G
from . import common as C
from .common import L

ID = "C08"
RUNS = {"quick": 14_000, "thorough": 280_000}
BUDGET_S = {"quick": 120, "thorough": 800}
CHUNK = 120
RULE = ("each run parses a generated domain (or, 1 run in 25, a domain file shipped under /repo/tests), exports it with "
        "DomainExporter.export_domain under a tape-drawn fault plan (ack / ENOSPC or EIO after k bytes / crash after k "
        "bytes, buffer size 1..8192) and hash schedule, re-parses the file (optionally with a read fault first), retries "
        "after faults, and runs a second export/parse round; non-trivial = a fault fired, or the domain has >= 1 action "
        "with a conditional/universal/numeric effect or an (in)equality; distinct = distinct history digests")
ASSUMPTIONS = ["ref/walker.py reads library objects faithfully by attribute access; ref/interp.py decides behavioural equality "
               "on >= 20 sampled (state, call) pairs per differing action over a 3-4 object universe",
               "numeric constants are multiples of 0.5 (representable at the exporter's 2-decimal precondition precision)",
               "the domain as parsed (not the source text) is the baseline: parse fidelity is C01's subject"]
REAL_VS_STUB = {"real": ["DomainExporter.export_domain/extract_domain, Action.effects_to_pddl, Precondition printers (incl. "
                         "sympy simplification of nested conditions), DomainParser, CPython TextIOWrapper/BufferedWriter"],
                "stub": ["__hash__ seam", "raw file sink (fault-injecting, persists the planned prefix to a real tmpfs file)"]}
TECHNIQUE = "deterministic simulation: seeded export iteration orders + torn/failed/crashed export and read faults, retry, same-size and shorter overwrites under a file clock that does not advance, model revised in place between two exports; structural walker + reference interpreter as oracle"
DESIGN_REF = "DESIGN.md §5 C08, §3.3"
LEVEL_TEXT = ("seeded exploration of (domain x hash schedule x fault plan): acknowledged exports must re-parse to an equal "
              "vocabulary and equal behaviour, unacknowledged ones must be rejected or equal, and a retry after faults stop "
              "must succeed; sampling, not proof")
LEVEL_NOTE = "trusts walker + reference interpreter; behavioural equality is sampled, not proven, when action bodies differ syntactically"

_FIXTURES = None


def fixtures():
    global _FIXTURES
    if _FIXTURES is None:
        import os
        repo = os.environ.get("VERIF_REPO", "/repo")
        out = []
        for root, _, files in os.walk(os.path.join(repo, "tests")):
            for f in sorted(files):
                if f.endswith(".pddl"):
                    p = os.path.join(root, f)
                    try:
                        with fs._real_open(p, "rb") as fh:
                            head = fh.read(4000).decode("utf-8", "replace").lower()
                    except OSError:
                        continue
                    if "(domain" in head.replace(" ", "").replace("\n", "") or "(domain " in head:
                        if "(problem" not in head:
                            out.append(p)
        _FIXTURES = sorted(out)
    return _FIXTURES


def chains(w):
    """ancestor chain of every type: the subtype relation is part of 'the same types' (a parent name alone is not)"""
    # compared as the set of ancestor names: the parser may put a stand-in 'object' type between a root type and the
    # real object type, which does not change the subtype relation
    if "type_chains" in w:
        return {k: tuple(sorted(set(v))) for k, v in sorted(w["type_chains"].items()) if k != "object"}
    out = {}
    for t in w["types"]:
        c, x, n = [t], t, 0
        while x in w["types"] and n < 50:
            x = w["types"][x]
            c.append(x)
            n += 1
        c.append("object")
        out[t] = tuple(sorted(set(c)))
    return dict(sorted(out.items()))


def vocab(w):
    return {"types": dict(sorted(w["types"].items())), "type_ancestors": chains(w),
            "constants": dict(sorted(w["constants"].items())),
            "predicates": dict(sorted(w["predicates"].items())), "functions": dict(sorted(w["functions"].items())),
            "signatures": {k: tuple(v["params"]) for k, v in sorted(w["actions"].items())}}


def vocab_diff(a, b):
    out = []
    for k in a:
        if a[k] != b[k]:
            ka, kb = a[k], b[k]
            keys = [x for x in sorted(set(ka) | set(kb)) if ka.get(x) != kb.get(x)]
            out.append(f"{k}: " + ", ".join(f"{x}: {ka.get(x)} -> {kb.get(x)}" for x in keys[:3]))
    return "; ".join(out)


def universe(ops, w, n=3):
    """objects (2-4, each of a tape-drawn type) + the domain's constants; fluents defined everywhere"""
    tnames = [t for t in w["types"]] or ["object"]
    objs = {}
    for i in range(2 + ops.draw(n)):
        objs[f"u{i}"] = ops.pick(tnames)
    # make sure every type that has no object gets one with probability 1/2 (so typed parameters can be filled)
    for t in tnames:
        if not any(interp.is_sub(w["types"], ty, t) for ty in {**objs, **w["constants"]}.values()) and len(objs) < 5:
            objs[f"u{len(objs)}"] = t
    return objs


def rand_state(ops, w, allobj, dens=3):
    facts = set()
    for p, sig in w["predicates"].items():
        for combo in itertools.product(*[[o for o, ty in allobj.items() if interp.is_sub(w["types"], ty, s)] for s in sig]):
            if ops.draw(dens) == 0:
                facts.add((p,) + combo)
    fl = {}
    for f, sig in w["functions"].items():
        for combo in itertools.product(*[[o for o, ty in allobj.items() if interp.is_sub(w["types"], ty, s)] for s in sig]):
            fl[(f,) + combo] = ops.num(13, 0.5)
    return (frozenset(facts), fl)


def numeric_constants(act):
    """values of the numeric literals and of the constant sub-expressions of an action (thresholds worth sampling)"""
    out = set()

    def ex(e):
        if isinstance(e, (int, float)):
            out.add(float(e))
            return float(e)
        if e[0] == "fn":
            return None
        x, y = ex(e[1]), ex(e[2])
        if x is not None and y is not None:
            try:
                v = {"+": x + y, "-": x - y, "*": x * y, "/": x / y}[e[0]]
            except ZeroDivisionError:
                return None
            out.add(v)
            return v
        return None

    def fo(f):
        k = f[0]
        if k in ("and", "or"):
            for x in f[1]:
                fo(x)
        elif k == "cmp":
            ex(f[2])
            ex(f[3])
        elif k == "forall":
            fo(f[3])

    def ef(e):
        if e[0] == "num":
            ex(e[3])
        elif e[0] == "when":
            fo(e[1])
            for x in e[2]:
                ef(x)
        elif e[0] == "forall":
            ef(e[3])

    fo(act["pre"])
    for e in act["eff"]:
        ef(e)
    return out


def behaviour_equal(ctx, ops, w1, w2, aname, samples=24):
    """-> None if equal on all samples else a description"""
    a1, a2 = w1["actions"][aname], w2["actions"][aname]
    objs = universe(ops, w1)
    allobj = {**objs, **w1["constants"]}
    checked = 0
    thresholds = sorted(numeric_constants(a1) | numeric_constants(a2))
    for i in range(samples):
        S = rand_state(ops, w1, allobj)
        if thresholds and i % 2:
            # fluent values placed on and just around the constants of either version (a threshold that moved by a
            # rounding error is only visible there)
            fl = dict(S[1])
            for k in fl:
                if ops.chance(1, 2):
                    fl[k] = ops.pick(thresholds) + [0.0, 0.004, -0.004, 0.0004, -0.0004, 0.00004, -0.00004][ops.draw(7)]
            S = (S[0], fl)
        args = []
        ok = True
        for _, ty in a1["params"]:
            c = [o for o, t in allobj.items() if interp.is_sub(w1["types"], t, ty)]
            if not c:
                ok = False
                break
            args.append(ops.pick(c))
        if not ok:
            continue
        if ops.chance(1, 2):
            S = force(S, a1, args)
        try:
            r1 = interp.applicable(S, a1, args, w1, allobj)
            r2 = interp.applicable(S, a2, args, w2, allobj)
        except interp.Undefined:
            continue
        if r1 != r2:
            return f"{C.fmt_call(aname, args)} applicable before export: {r1}, after: {r2}; facts={sorted(S[0])[:8]}"
        try:
            s1 = interp.successor(S, a1, args, w1, allobj)[0]
        except (interp.Inconsistent, interp.Undefined):
            s1 = None
        try:
            s2 = interp.successor(S, a2, args, w2, allobj)[0]
        except (interp.Inconsistent, interp.Undefined):
            s2 = None
        if s1 is None or s2 is None:
            continue
        checked += 1
        if not interp.state_eq(s1, s2):
            return f"{C.fmt_call(aname, args)} successor differs: {interp.state_diff(s2, s1)}"
    ctx.probes["behaviour_samples"] += checked
    return None


def force(S, act, args):
    b = interp.binding(act, args)
    facts = set(S[0])
    for f in act["pre"][1]:
        if f[0] == "atom":
            facts.add((f[1],) + tuple(b.get(a, a) for a in f[2]))
        elif f[0] == "not":
            facts.discard((f[1][1],) + tuple(b.get(a, a) for a in f[1][2]))
    return (frozenset(facts), dict(S[1]))


def compare(ctx, ops, w1, w2, site, what):
    v1, v2 = vocab(w1), vocab(w2)
    if v1 != v2:
        raise Violation("C08/vocabulary-differs", site, f"{what}: {vocab_diff(v1, v2)}")
    if w1["name"] != w2["name"]:
        raise Violation("C08/vocabulary-differs", site, f"{what}: domain name {w1['name']} -> {w2['name']}")
    for a in w1["actions"]:
        try:
            c1, c2 = G.canon_action(w1["actions"][a]), G.canon_action(w2["actions"][a])
        except Exception as e:
            raise Violation("C08/action-not-canonicalisable", site, f"{what}: {a}: {type(e).__name__}: {e}")
        if c1 == c2:
            ctx.probes["actions_structurally_equal"] += 1
            continue
        ctx.probes["actions_compared_behaviourally"] += 1
        d = behaviour_equal(ctx, ops, w1, w2, a)
        if d:
            ctx.note(f"before: pre={G.r_f(w1['actions'][a]['pre'])} eff={[G.r_e(e) for e in w1['actions'][a]['eff']]}")
            ctx.note(f"after:  pre={G.r_f(w2['actions'][a]['pre'])} eff={[G.r_e(e) for e in w2['actions'][a]['eff']]}")
            feats = {"simplified_condition": has_simplified_condition(w1["actions"][a])}
            if has_forall_eq_only(w1["actions"][a]):
                feats = {"forall_eq_only": True}
            raise Violation("C08/behaviour-differs", site, f"{what}: action {a}: {d}", feats)


def _has_cmp(f):
    k = f[0]
    if k in ("and", "or"):
        return any(_has_cmp(x) for x in f[1])
    if k == "forall":
        return _has_cmp(f[3])
    return k == "cmp"


def has_simplified_condition(act):
    """does the exporter print part of this action through the simplifying printers?  (conditions of when/forall
    effects and nested or/forall preconditions are printed with should_simplify=True; see known findings)"""
    for e in act["eff"]:
        if e[0] == "when" and _has_cmp(e[1]):
            return True
        if e[0] == "forall" and _has_cmp(e[3][1]):
            return True
    for x in act["pre"][1]:
        if x[0] in ("or", "and", "forall") and _has_cmp(x):
            return True
    return False


def has_forall_eq_only(act):
    """a forall precondition whose body consists of (in)equalities only (printed as the empty string by
    UniversalPrecondition.__str__: 'if len(self.operands) == 0: return ""')"""
    for x in act["pre"][1]:
        if x[0] == "forall" and x[3][1] and all(y[0] in ("=", "neq") for y in x[3][1]):
            return True
    return False


def walk(d, site):
    try:
        return walker.w_domain(d)
    except walker.WalkError as e:
        raise Violation("C08/domain-structure-inconsistent", site, str(e))


def pick_cut(f, n):
    r = f.draw(6)
    if r == 0:
        return 0
    if r == 1:
        return max(0, n - 1)
    if r == 2:
        return max(0, n - 1 - f.draw(4))
    return f.draw(n + 1)


def run(ctx):
    cfg = ctx.s("cfg")
    ops = ctx.s("ops")
    f = ctx.s("fs")
    use_fixture = cfg.draw(25) == 0 and fixtures()
    if use_fixture:
        src = fixtures()[cfg.draw(len(fixtures()))]
        with fs._real_open(src, "r", encoding="utf-8") as fh:
            text = fh.read()
        ctx.probes["fixture_domain"] += 1
        label = src.split("/tests/")[-1]
    else:
        feat = C.draw_features(ctx)
        feat["tiny_offsets"] = False  # the exporters print constants with 4 decimals (their stated precision)
        feat["implicit_parent_types"] = cfg.draw(4) == 0  # supertypes introduced only by being used as a parent
        feat["many_constants"] = cfg.draw(10) == 0  # a wide vocabulary: 12-31 hyphenated constants, most of one type
        feat["cond_numeric"] = cfg.chance(1, 3)
        ctx.profile = "simplified-conditions" if feat["cond_numeric"] else "clean"
        nested = cfg.draw(6)
        if nested == 0:
            feat["or_pre"] = True
            ctx.profile += "+or-preconditions"
        elif nested == 1:
            feat["forall_pre"] = True
            ctx.profile += "+forall-preconditions"
        W = C.World(ctx, feat)
        text = W.dom_text
        label = "generated"
    ctx.log("input", label, text if not use_fixture else None)
    try:
        d1 = C.parse_domain(ctx, text, "orig.pddl", **({"enable_disjunctions": True} if use_fixture else {}))
    except Exception as e:
        if use_fixture:
            ctx.probes["fixture_unparsable"] += 1
            raise Skip()
        raise Violation("C08/generated-input-rejected", "DomainParser", f"{type(e).__name__}: {e}")
    if not use_fixture and cfg.draw(4) == 0:
        # the model is edited through the object API before it is exported (same meaning, a shape the parser never
        # builds: one UniversalEffect holding several conditional effects)
        C.merge_foralls(ctx, d1)
    w1 = walk(d1, "DomainParser")
    rich = any(e[0] in ("when", "forall", "num") for a in w1["actions"].values() for e in a["eff"]) or any(
        x[0] in ("=", "neq", "cmp") for a in w1["actions"].values() for x in a["pre"][1])
    exporter = L().DomainExporter()
    path = ctx.rundir / "exported.pddl"
    ctx.simp = {a: has_simplified_condition(v) for a, v in w1["actions"].items()}
    if not use_fixture and cfg.draw(6) == 0:
        return revision_history(ctx, W, d1, exporter, path, ops)
    try:
        expected_len = len(exporter.extract_domain(d1).encode("utf-8"))
    except Exception as e:
        raise Violation("C08/export-raised", "DomainExporter.extract_domain", f"{type(e).__name__}: {e}",
                        {"simplified_condition": any(ctx.simp.values())})
    plan = ["ack", "ack", "ack", "error", "crash", "crash"][f.draw(6)]
    k = None
    acked = False
    fault_fired = False
    if plan != "ack":
        k = pick_cut(f, expected_len)
        if f.chance(1, 3):
            fs.write_real(path, "(define (domain stale))")  # an older export is there; open(...,'w') truncates it
        fs.arm_write(plan, k, [errno.ENOSPC, errno.EIO][f.draw(2)])
    try:
        exporter.export_domain(d1, path)
        acked = True
    except OSError:
        ctx.faults["export_error"] += 1
        fault_fired = True
    except fs.SimCrash:
        ctx.faults["export_crash"] += 1
        fault_fired = True
    except Exception as e:
        raise Violation("C08/export-raised", "DomainExporter.export_domain", f"{type(e).__name__}: {e}",
                        {"simplified_condition": any(ctx.simp.values())})
    fs.disarm()
    if plan == "ack" and not acked:
        raise Violation("C08/export-failed-without-fault", "DomainExporter.export_domain", "raised although no fault")
    on_disk = fs.read_real_bytes(path) if path.exists() else b""
    ctx.log("export", plan, k, expected_len, len(on_disk), acked)
    ctx.measure("write_fault_positions (plan, cut, length)", (plan, k, expected_len))
    ctx.note(f"export plan={plan} k={k} acked={acked} bytes on disk {len(on_disk)}/{expected_len}")
    ctx.nontrivial = fault_fired or rich
    ctx.sample = {"domain": label, "plan": plan, "cut": k, "acked": acked, "bytes": [len(on_disk), expected_len],
                  "actions": {a: {"pre": G.r_f(v["pre"]), "eff": [G.r_e(e) for e in v["eff"]][:4]}
                              for a, v in list(w1["actions"].items())[:2]}}
    site = "DomainExporter.export_domain -> DomainParser"
    kw = {"enable_disjunctions": True} if use_fixture else {}
    if acked:
        if plan != "ack":
            ctx.probes["fault_plan_not_reached"] += 1  # k >= length: the write completed
        ctx.new_epoch()
        # optional read fault on the re-parse: must surface as an exception, then a clean retry must work
        if f.chance(1, 8):
            exc = [PermissionError(errno.EACCES, "sim"), OSError(errno.EIO, "sim")][f.draw(2)]
            fs.arm_read(["open", "read"][f.draw(2)], exc)
            ctx.faults["reparse_read_fault"] += 1
            try:
                L().DomainParser(path, **kw).parse_domain()
            except OSError:
                pass
            else:
                raise Violation("C08/read-fault-swallowed", "DomainParser", "re-parse returned despite a read error")
            fs.disarm()
        d2 = reparse(ctx, path, kw, site, on_disk)
        w2 = walk(d2, site)
        compare(ctx, ops, w1, w2, site, "acknowledged export")
        check_text(ctx, ops, on_disk, w1, use_fixture)
    else:
        # the export was not acknowledged: the file may be torn.  "Restart": only the file tree survives.
        ctx.new_epoch()
        try:
            d2 = L().DomainParser(path, **kw).parse_domain()
        except Exception:
            ctx.probes["torn_export_rejected"] += 1
            d2 = None
        if d2 is not None:
            ctx.probes["torn_export_accepted"] += 1
            try:
                w2 = walk(d2, site)
                compare(ctx, ops, w1, w2, site, f"UNACKNOWLEDGED export ({plan} after {k} bytes) was accepted on re-parse")
            except Violation as v:
                raise Violation("C08/torn-export-accepted-as-different-domain", site, v.detail, v.features)
        # faults have stopped: one retry (from the source, as a restarted client would) must succeed
        ctx.new_epoch()
        d1 = C.parse_domain(ctx, text, "orig.pddl", **kw)
        try:
            exporter.export_domain(d1, path)
        except Exception as e:
            raise Violation("C08/retry-failed-after-faults-stopped", "DomainExporter.export_domain",
                            f"{type(e).__name__}: {e}")
        on_disk = fs.read_real_bytes(path)
        ctx.new_epoch()
        d2 = reparse(ctx, path, kw, site, on_disk)
        w2 = walk(d2, site)
        compare(ctx, ops, w1, w2, site, "retry after fault")
        ctx.probes["retry_ok"] += 1
    # ---- history on the path: a *different* domain of the same exported size is written over the same file and parsed
    # back (a reader that remembers what it read from this path must notice the new content)
    if not use_fixture and f.chance(1, 2):
        overwrite_same_path(ctx, W, text, path, exporter, ops, site)
    # ---- second round: export the re-parsed domain (under the current hash schedule), parse again
    path2 = ctx.rundir / "exported2.pddl"
    try:
        exporter.export_domain(d2, path2)
    except Exception as e:
        raise Violation("C08/second-export-failed", "DomainExporter.export_domain", f"{type(e).__name__}: {e}",
                        {"simplified_condition": any(ctx.simp.values())})
    ctx.new_epoch()
    d3 = reparse(ctx, path2, kw, site + " (2nd round)", fs.read_real_bytes(path2))
    w3 = walk(d3, site)
    compare(ctx, ops, w2, w3, site + " (2nd round)", "second export/parse round")
    ctx.log("done", sorted(w3["actions"]))
    ctx.steps += 3


def revision_history(ctx, W, d1, exporter, path, ops):
    """history: the domain is exported; the SAME domain object is then revised in place through the object API (an
    effect added to an action, or a literal removed from a nested disjunction of a precondition); it is exported again
    by the same exporter over the same path.  The second file must describe the domain as it is now."""
    site = "DomainExporter.export_domain -> DomainParser (the model was revised in place between two exports)"
    try:
        exporter.export_domain(d1, path)
        str(d1)
    except Exception as e:
        raise Violation("C08/export-raised", "DomainExporter.export_domain", f"{type(e).__name__}: {e}")
    r = None
    for _ in range(3):
        r = C.revise_model(ctx, W, d1, ops)
        if r:
            break
    if not r:
        ctx.probes["revision_not_possible"] += 1
        return
    W2, what = r
    ctx.note(f"revision: {what}")
    wb = walk(d1, "the revised domain object")
    try:
        exporter.export_domain(d1, path)
    except Exception as e:
        raise Violation("C08/export-raised", "DomainExporter.export_domain", f"after the revision: {type(e).__name__}: {e}")
    on_disk = fs.read_real_bytes(path)
    ctx.new_epoch()
    d2 = reparse(ctx, path, {}, site, on_disk)
    compare(ctx, ops, wb, walk(d2, site), site, f"second export after: {what}")
    check_text(ctx, ops, on_disk, wb, False)
    ctx.nontrivial = True
    ctx.probes["revision_history_checked"] += 1


def overwrite_same_path(ctx, W, text, path, exporter, ops, site):
    import re
    # variant: one single-digit numeric constant of the source text replaced by another digit (same length)
    spots = [m.start(1) for m in re.finditer(r"[ (]([1-9])[ )]", text) if not C_in_comment(text, m.start(1))]
    if not spots:
        ctx.probes["no_same_length_variant"] += 1
        return
    i = spots[ops.draw(len(spots))]
    new_digit = str((int(text[i]) % 9) + 1)
    text_b = text[:i] + new_digit + text[i + 1:]
    if len(W.D["actions"]) >= 2 and ops.chance(1, 2):
        # variant: the domain without its last action - a SHORTER export over the same path (nothing of the longer
        # file may survive)
        D2 = dict(W.D, actions=dict(list(W.D["actions"].items())[:-1]))
        text_b = G.render_domain(D2, child_first=W.feat.get("child_first_types", False))
        ctx.probes["same_path_shorter_content"] += 1
    try:
        ctx.new_epoch()
        db = C.parse_domain(ctx, text_b, "variant.pddl")
    except Exception:
        ctx.probes["variant_unparsable"] += 1
        return
    wb = walk(db, "DomainParser")
    before = fs.read_real_bytes(path)
    try:
        exporter.export_domain(db, path)
    except Exception as e:
        raise Violation("C08/export-raised", "DomainExporter.export_domain", f"variant: {type(e).__name__}: {e}",
                        {"simplified_condition": any(has_simplified_condition(v) for v in wb["actions"].values())})
    after = fs.read_real_bytes(path)
    ctx.probes["same_path_overwritten"] += 1
    if len(after) == len(before) and after != before:
        ctx.probes["same_path_same_size_different_content"] += 1
    ctx.new_epoch()
    d2 = reparse(ctx, path, {}, site + " (same path, other domain)", after)
    w2 = walk(d2, site)
    try:
        compare(ctx, ops, wb, w2, site, "another domain exported over the same path")
    except Violation as v:
        raise Violation(v.kind.replace("C08/", "C08/overwrite-"), v.site, v.detail, v.features)
    ctx.new_epoch()


def C_in_comment(text, i):
    ls = text.rfind("\n", 0, i) + 1
    return ";" in text[ls:i]


def reparse(ctx, path, kw, site, on_disk):
    try:
        return L().DomainParser(path, **kw).parse_domain()
    except Exception as e:
        ctx.note("exported text: " + on_disk.decode("utf-8", "replace")[:1500])
        raise Violation("C08/exported-domain-rejected", site, f"{type(e).__name__}: {e}",
                        {"simplified_condition": any(getattr(ctx, "simp", {}).values())})


def check_text(ctx, ops, on_disk, w1, use_fixture):
    """the reference reading of the exported text must agree with the domain before export (tells exporter faults
    from re-parse faults)"""
    try:
        r = pddl_reader.read_domain_text(on_disk.decode("utf-8"))
    except pddl_reader.Unsupported:
        ctx.probes["reference_reader_unsupported"] += 1
        return
    except sexpr.Reject as e:
        raise Violation("C08/exported-text-malformed", "DomainExporter.export_domain", str(e))
    r = dict(r)
    r.setdefault("requirements", [])
    try:
        compare(ctx, ops, w1, r, "DomainExporter.export_domain (reference reading of the text)", "exported text")
    except Violation as v:
        raise Violation(v.kind.replace("C08/", "C08/exported-text-"), v.site, v.detail, v.features)
    ctx.probes["reference_reading_checked"] += 1
