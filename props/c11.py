"""C11 - the S-expression reader returns the text's parenthesis structure, all of it.

Simulation dimension (S5): the file the reader consumes is whatever a *writer that crashed at byte k / hit ENOSPC /
appended to a stale file* left behind; the same text is also delivered as a string (file-vs-string path).
Oracle: reference reader (ref/sexpr.py).  Complete text => same tree from file and from string.  Torn file => if the
reference rejects the bytes on disk the library must raise; if the cut fell in trailing blanks/comments the full tree
must come back."""
from sim import fs
from sim.engine import Violation
from ref import sexpr
from gen import pddl as G
from .common import L, short

ID = "C11"
RUNS = {"quick": 240_000, "thorough": 4_000_000}
BUDGET_S = {"quick": 120, "thorough": 780}
CHUNK = 2000
RULE = ("each run draws a token tree (<= 40 tokens, depth <= 5) and a layout (blanks, tabs, LF/CRLF, ';' comments at "
        "line start/end/between tokens, case, non-ASCII inside comments), has a simulated writer put it on disk under a "
        "tape-drawn fault plan (ack / ENOSPC after k bytes / crash after k bytes / append to a stale file / stray "
        "')' appended) and reads the bytes on disk with PDDLTokenizer(file) and the intended text with "
        "PDDLTokenizer(pddl_str); non-trivial = the file on disk differs from the intended text or the layout has "
        "comments/tabs/CRLF; distinct = distinct history digests (tree, layout, fault plan, outcome)")
ASSUMPTIONS = ["the reference reader in ref/sexpr.py defines the intended reading (';' comment to end of line, "
               "lower-casing, parentheses are tokens, blanks separate)",
               "lone CR line ends, and layouts using other Unicode line separators, are not generated",
               "a bare atom without parentheses is not generated as a complete text"]
REAL_VS_STUB = {"real": ["pddl_plus_parser.lisp_parsers.PDDLTokenizer (file and string path)", "CPython TextIOWrapper",
                         "real files on tmpfs"],
                "stub": ["the writer that produces the file (simulated, fault-injecting)", "builtins.open seam"]}

ATOMS = ["a", "b", "define", ":init", "?x", "-", "obj1", "=", "3.5", "-2", "p_q", "at-robby", "1e3", "not",
         # non-ASCII tokens, including letters whose case folding differs from lower-casing (ß, final sigma, long s,
         # ligatures): lower-casing must keep them distinct from their look-alikes
         "straße", "strasse", "maß", "mass", "ςx", "σx", "ﬁn", "fin", "ſt", "st", "é", "ü1",
         # tokens that begin with a character other than a letter, digit, '?', ':' or '-' (round 15: PDDL+'s #t and the
         # operator tokens): wherever the layout puts them - first on a line included - they are ordinary tokens
         "#t", "#x-1", "*", "/", "+", "<=", ">=", ".5", "@a", "_u", "%p", "!", "'q", "\"w", "[k]", "a#"]


def gen_tree(t, depth, budget):
    n = 1 + t.draw(5)
    out = []
    for _ in range(n):
        if budget[0] <= 0:
            break
        if depth > 0 and t.chance(1, 3):
            budget[0] -= 2
            out.append(gen_tree(t, depth - 1, budget))
        else:
            budget[0] -= 1
            out.append(t.pick(ATOMS))
    return out


def render(tree):
    if isinstance(tree, str):
        return tree
    return "(" + " ".join(render(x) for x in tree) + ")"


def layout(text, t):
    """like gen.pddl.noise but never changes tokens; may put non-ASCII inside comments"""
    out = []
    upper = t.chance(1, 4)
    flags = set()
    for ch in text:
        if ch in "()":
            pre = ["", "", "", "", "", " ", "\t", "\n", "\r\n", " ; c (x\n", "  ", ";\n", ";c\r\n"][t.draw(13)]
            post = ["", "", "", "", "", " ", "\t", "\n", " ;; nöte )\n", "\r\n", "\t ", " ;(\n", ";)\n"][t.draw(13)]
            for s in (pre, post):
                if ";" in s:
                    flags.add("comment")
                if "\t" in s:
                    flags.add("tab")
                if "\r" in s:
                    flags.add("crlf")
            out.append(pre + ch + post)
        elif ch == " ":
            s = [" ", " ", " ", " ", "  ", "\t", "\n", " ;k\n", "\r\n", "\t\t", ";glued comment\n", ";\r\n",
                 "\n\n", ";x (\n\t"][t.draw(14)]
            if ";" in s:
                flags.add("comment")
            if "\t" in s:
                flags.add("tab")
            if "\r" in s:
                flags.add("crlf")
            out.append(s)
        else:
            if upper and ch.isascii() and t.chance(1, 3):
                flags.add("case")
                out.append(ch.upper())
            else:
                out.append(ch)
    res = "".join(out)
    if t.chance(1, 3):
        # characters that str.splitlines() treats as line boundaries but a text file does not (form feed, VT, FS/GS/RS,
        # NEL, LS, PS): inside a comment they are comment text, outside they are blanks
        exotic = ["\x0c", "\x0b", "\x1c", "\x1d", "\x1e", "\x85", "\u2028", "\u2029"][t.draw(8)]
        body = f" ; page{exotic}break ) (stray\n"
        i = res.find("(")
        j = res.find("\n", i) if t.chance(1, 2) else -1
        if j >= 0 and not in_comment(res, j):
            res = res[:j] + body + res[j + 1:]
        else:
            res = res + "\n" + body
        if t.chance(1, 4):
            k = res.find(" ")
            if k >= 0 and not in_comment(res, k):
                res = res[:k] + exotic + res[k + 1:]
        flags.add("exotic-separator")
    if t.chance(1, 5):
        res = "; header (with parens and ünicode\n" + res
        flags.add("comment")
    if t.chance(1, 5):
        res = res + "\n   ; trailing comment )\n"
        flags.add("comment")
    if t.chance(1, 8):
        res = "  \n\t" + res + " \n "
    return res, flags


def lib_parse(**kw):
    try:
        return ("ok", L().PDDLTokenizer(**kw).parse())
    except Exception as e:  # any exception type counts as a rejection
        return ("reject", type(e).__name__)


def giant_text(ctx, t, form):
    """a sparse input of 16-257 MiB: comment padding, with a long token or a comment that contains parentheses
    straddling every multiple of 2**20 and of 10**6 characters (any block-wise reader has its block boundaries there),
    and copies of the generated form in between.  Costs about a second: almost everything is comment text."""
    exps = [24, 25, 26, 26, 27, 27] + ([28] if ctx.tier != "quick" else [])
    size = (1 << exps[t.draw(len(exps))]) + (1 << 20) + t.draw(1 << 20)
    pad = "; pad (not a form) " + "x" * (200 + t.draw(400)) + "\n"
    marks = sorted(set(range(1 << 20, size, 1 << 20)) | set(range(10 ** 6, size, 10 ** 6)))
    parts = ["(\n"]
    n = 2
    for k, m in enumerate(marks):
        room = m - n - 16
        if room < 64:
            continue
        unit = form + "\n"
        if room > len(unit) + 64 and t.draw(8) == 0:
            parts.append(unit)
            n += len(unit)
            room -= len(unit)
        cnt = room // len(pad)
        parts.append(pad * cnt)
        n += cnt * len(pad)
        fill = m - n - 8
        kind = t.draw(3)
        if kind == 0:
            item = " tok" + "a" * fill + f"straddle{k:04d}\n"  # one token across the mark
        elif kind == 1:
            item = ";" + "c" * (fill + 4) + f" (leak {k}) tail\n"  # a comment across the mark, parentheses after it
        else:
            item = " " * fill + f"(sub-{k:04d} (x{k} y))\n"  # a sub-form across the mark
        parts.append(item)
        n += len(item)
    parts.append(")\n")
    ctx.probes["giant_input"] += 1
    ctx.measure("giant_input_MiB", n >> 20)
    return "".join(parts)


def flat(tree):
    """token sequence (with parentheses) of a nested list, computed without recursion (deep structures)"""
    out, stack = [], [iter([tree])]
    while stack:
        try:
            x = next(stack[-1])
        except StopIteration:
            stack.pop()
            if stack:
                out.append(")")
            continue
        if isinstance(x, list):
            out.append("(")
            stack.append(iter(x))
        else:
            out.append(x)
    return out


def deep_input(ctx, t):
    """a balanced text nested deeper than the interpreter's recursion limit: the reader may give up with an error (a
    resource limit), but if it answers, the answer is the structure of the text"""
    depth = [1100, 1500, 3000, 6000][t.draw(4)]
    unit = ["(and (p a) ", "(a ", "(x y (z) "][t.draw(3)]
    text = unit * depth + "(leaf)" + ")" * depth
    want = sexpr.tokens(text)
    path = ctx.rundir / "deep.pddl"
    fs.write_real(path, text)
    ctx.probes["deep_input"] += 1
    ctx.nontrivial = True
    for kw, label in (({"file_path": path}, "file"), ({"pddl_str": text}, "string")):
        try:
            got = L().PDDLTokenizer(**kw).parse()
        except BaseException as e:  # RecursionError, MemoryError ...: the reader gave up
            if isinstance(e, (KeyboardInterrupt, SystemExit)):
                raise
            ctx.probes["deep_input_rejected"] += 1
            continue
        if not isinstance(got, list) or flat(got)[1:-1] != want[1:-1] and flat(got) != want:
            raise Violation("C11/deep-text-misread", f"PDDLTokenizer({label}).parse",
                            f"balanced text nested {depth} deep was neither read completely nor rejected; got "
                            f"{short(flat(got)[:12] if isinstance(got, list) else got, 120)}")
        ctx.probes["deep_input_read"] += 1


def run(ctx):
    t = ctx.s("workload")
    f = ctx.s("fs")
    if ctx.seed % 3000 == 1234:
        return deep_input(ctx, t)
    tree = gen_tree(t, 1 + t.draw(5), [5 + t.draw(36)])
    text, flags = layout(render(tree), t)
    big = ctx.s("cfg").draw(6000 if ctx.tier == "quick" else 2500)
    huge = ctx.seed % 240000 == 4242  # exactly one input of 17-20 MiB per 240 000 runs (costs several seconds)
    if huge:
        big = 0
    if big < 40:
        # sizes around typical buffer / block boundaries (8 KiB, 64 KiB, 128 KiB, 1 MiB): the same form repeated inside
        # one top-level list, with long comments between the copies
        # comfortably past the boundary (CRLF translation and comment stripping shrink what the reader sees), and past
        # several multiples of the small ones
        base = 8192 if big >= 12 else 65536 if big >= 5 else 131072 if big >= 2 else 1 << 20
        target = base * (1 + t.draw(3) if base < (1 << 20) else 1) + base // 16 + t.draw(max(3000, base // 10))
        if huge:
            target = (17 << 20) + t.draw(3 << 20)
            ctx.probes["huge_input"] += 1
        unit = text.strip() + "\n; filler comment with (parens) and words that must stay comment text " + "x" * t.draw(90) + "\n"
        reps = target // max(1, len(unit)) + 2
        text = "(\n" + unit * reps + ")\n"
        flags.add(f"big-{target >> 10}KiB")
        ctx.probes["big_input"] += 1
    giant = ctx.seed % 6000 == 77 and not huge
    if giant:
        text = giant_text(ctx, t, text.strip())
        flags.add(f"giant-{len(text) >> 20}MiB")
    data = text.encode("utf-8")
    want = sexpr.read_one(text)  # the generator only makes well-formed complete texts
    if not (big < 40 or giant or want == lower_tree(tree)):
        raise RuntimeError("harness: reference reading of a generated text differs from its tree")
    # ---- the writer
    plan = ["ack", "ack", "error", "crash", "append-form", "append-paren", "drop-paren", "crash"][f.draw(8)]
    if giant:
        plan = "ack"
    path = ctx.rundir / "in.pddl"
    k = None
    if plan in ("error", "crash"):
        k = pick_cut(f, data)
        stale = f.chance(1, 3)
        if stale:  # an older valid file is there; open(...,'w') truncates it first
            fs.write_real(path, "(old file)")
        fs.arm_write(plan, k)
        try:
            with open(path, "wt", encoding="utf-8", newline="") as fh:
                fh.write(text)
        except OSError:
            ctx.faults["writer_error"] += 1
        except fs.SimCrash:
            ctx.faults["writer_crash"] += 1
    elif plan == "append-form":
        extra = render(gen_tree(t, 1, [4]))
        fs.write_real(path, text + ["", " ", "\n"][f.draw(3)] + extra)
        ctx.faults["stale_tail_form"] += 1
    elif plan == "append-paren":
        fs.write_real(path, text + ["", " ", "\n"][f.draw(3)] + ")")
        ctx.faults["stale_tail_paren"] += 1
    elif plan == "drop-paren":
        # a single parenthesis lost (one-byte hole): delete one '(' or ')' that is not inside a comment
        pos = [i for i, ch in enumerate(text) if ch in "()" and not in_comment(text, i)]
        i = pos[f.draw(len(pos))]
        fs.write_real(path, text[:i] + text[i + 1:])
        ctx.faults["lost_paren"] += 1
    else:
        with open(path, "wt", encoding="utf-8", newline="") as fh:
            fh.write(text)
    on_disk = fs.read_real_bytes(path)
    ctx.log("plan", plan, k, len(data), len(on_disk), hash_text(text))
    # ---- what does the reference say about the bytes on disk?
    try:
        disk_text = on_disk.decode("utf-8")
        verdict = sexpr.classify(disk_text)
    except UnicodeDecodeError:
        disk_text = None
        verdict = ("reject", "torn multi-byte character")
        ctx.probes["torn_multibyte"] += 1
    got_file = lib_parse(file_path=path)
    got_str = lib_parse(pddl_str=text)
    ctx.log("verdict", verdict[0], got_file[0], got_str[0])
    ctx.probes[f"plan_{plan}"] += 1
    ctx.probes[f"disk_{verdict[0]}"] += 1
    for fl in flags:
        ctx.probes[f"layout_{fl}"] += 1
    ctx.nontrivial = bool(flags) or on_disk != data
    ctx.sample = {"text": short(text, 200), "plan": plan, "cut": k, "on_disk_bytes": len(on_disk),
                  "reference_verdict": verdict[0], "library_file": got_file[0], "library_string": got_str[0]}
    ctx.note(f"writer plan={plan} k={k}; on disk {len(on_disk)}/{len(data)} bytes; reference verdict={verdict[0]}")
    # ---- string path: always the complete text
    if got_str != ("ok", want):
        raise Violation("C11/string-read-differs", "PDDLTokenizer(pddl_str).parse",
                        f"text={short(text, 160)!r} got={short(got_str, 160)} want={short(want, 160)}",
                        {"flags": sorted(flags)})
    # ---- file path
    site = "PDDLTokenizer(file_path).parse"
    if verdict[0] == "ok":
        if got_file != ("ok", verdict[1]):
            raise Violation("C11/file-read-differs", site,
                            f"plan={plan} disk={short(disk_text, 160)!r} got={short(got_file, 160)} "
                            f"want={short(verdict[1], 160)}")
        if on_disk == data and got_file != got_str:
            raise Violation("C11/file-and-string-disagree", site, short(text, 200))
        if not giant and not huge and f.draw(4) == 0:
            # history on one reader object: read, let the caller take the returned lists apart, read again
            import copy
            for kw, label in (({"file_path": path}, "file"), ({"pddl_str": text}, "string")):
                wanted = verdict[1] if label == "file" else want
                try:
                    tok = L().PDDLTokenizer(**kw)
                    first = tok.parse()
                    if isinstance(first, list):
                        del first[: 1 + len(first) // 2]
                        for x in first:
                            if isinstance(x, list):
                                x.append("edited-by-the-caller")
                    if f.draw(2) == 0 and hasattr(tok, "tokenize") and hasattr(tok, "read_from_tokens"):
                        # the two-step route of the same reader: take the token queue, let a reader consume it
                        queue = tok.tokenize()
                        try:
                            tok.read_from_tokens(queue)
                        except Exception:
                            pass
                    second = tok.parse()
                except Exception as e:
                    raise Violation("C11/second-read-differs", f"PDDLTokenizer({label}).parse twice",
                                    f"{type(e).__name__}: {e}")
                if second != wanted:
                    raise Violation("C11/second-read-differs", f"PDDLTokenizer({label}).parse twice",
                                    f"after the caller edited the first result the second read gives "
                                    f"{short(second, 160)}, want {short(wanted, 160)}")
            ctx.probes["read_twice_checked"] += 1
    elif verdict[0] == "reject":
        if got_file[0] != "reject":
            raise Violation("C11/unbalanced-text-accepted", site,
                            f"plan={plan} cut={k} reason={verdict[1]} disk={short(disk_text, 160)!r} "
                            f"got={short(got_file[1], 120)}")
    elif verdict[0] == "atom":
        ctx.probes["bare_atom_on_disk"] += 1  # not a parenthesised form: either outcome is tolerated
    else:  # trailing tokens after the top-level form
        if got_file[0] != "reject":
            raise Violation("C11/trailing-tokens-accepted", site,
                            f"plan={plan} disk tail ignored: ...{short(disk_text[-60:], 80)!r} got={short(got_file[1], 120)}",
                            {"trailing_tokens": True})


def hash_text(text):
    import hashlib
    return hashlib.blake2b(text.encode(), digest_size=6).hexdigest()


def lower_tree(t):
    return t.lower() if isinstance(t, str) else [lower_tree(x) for x in t]


def in_comment(text, i):
    ls = text.rfind("\n", 0, i) + 1
    return ";" in text[ls:i]


def pick_cut(f, data):
    """cut position biased to interesting places"""
    n = len(data)
    r = f.draw(8)
    if r == 0:
        return 0
    if r == 1:
        return max(0, n - 1)
    if r == 2:  # just after a ')'
        pos = [i + 1 for i, b in enumerate(data) if b == 0x29]
        return pos[f.draw(len(pos))] if pos else f.draw(n + 1)
    if r == 3:  # inside a multi-byte character
        pos = [i for i, b in enumerate(data) if b & 0xC0 == 0x80]
        return pos[f.draw(len(pos))] if pos else f.draw(n + 1)
    if r == 4:  # inside a comment
        pos = [i for i, b in enumerate(data) if b == 0x3B]
        return min(n, pos[f.draw(len(pos))] + 1 + f.draw(3)) if pos else f.draw(n + 1)
    if r == 5:  # in the trailing region after the last ')'
        last = data.rfind(b")")
        return min(n, last + 1 + f.draw(max(1, n - last)))
    return f.draw(n + 1)

TECHNIQUE = "deterministic simulation: seeded fault-injecting writer (torn/short/crashed/appended files), giant (16-257 MiB) and deeply nested inputs, one reader object read repeatedly; reference reader oracle"
DESIGN_REF = "DESIGN.md §5 C11, §3.3"
LEVEL_TEXT = ("seeded exploration of (token tree x layout x writer fault plan); every run is checked against an independent "
              "reference reader, for the file path (bytes a crashed or failed writer left on disk) and the string path; "
              "sampling, not proof")
LEVEL_NOTE = "trusts ref/sexpr.py as the definition of the intended reading; layouts limited to blanks, tabs, LF, CRLF and ';' comments"
