"""C10 - a serialized trajectory parses back to the same states and actions.

Simulation dimension: history (the trajectory), S1, S5 (the trajectory file is written by truncate-then-write: ENOSPC /
EIO / crash after k bytes, read fault on the parse, then a fault-free retry).  Oracle: the observation equals the
exported triplets (abstract values by the reference reading of both serialisations, and the library's ==); chain."""
import errno

from sim import fs
from sim.engine import Violation, Skip
from ref import interp, sexpr, pddl_reader
from gen import pddl as G
from . import common as C
from .common import L
from . import c16

ID = "C10"
RUNS = {"quick": 14_000, "thorough": 280_000}
BUDGET_S = {"quick": 120, "thorough": 800}
CHUNK = 120
RULE = ("each run builds a trajectory from a generated (domain, problem, plan) with the single-agent or the multi-agent "
        "trajectory exporter (1-8 steps; repeated-argument fluents, zero-arity atoms, negative/fractional values, empty "
        "states, nop slots), writes it with export_to_file under a tape-drawn fault plan and hash schedule, and parses it "
        "back with TrajectoryParser(domain, problem) and TrajectoryParser(domain) (objects deduced); after a failed or "
        "crashed export the file must be rejected or equal, and a retry must succeed; non-trivial = a fault fired or the "
        "trajectory has >= 2 distinct states; distinct = distinct history digests")
ASSUMPTIONS = ["states are compared as abstract values (set of atoms, map of fluents) read from both serialisations by the "
               "reference reader, and with the library's ==", "function arity <= 2"]
REAL_VS_STUB = {"real": ["TrajectoryExporter/MultiAgentTrajectoryExporter.parse_plan/export/export_to_file, "
                         "TrajectoryParser.parse_trajectory (with and without problem), State.serialize/__eq__"],
                "stub": ["__hash__ seam", "raw file sink (fault-injecting)"]}
TECHNIQUE = "deterministic simulation: seeded trajectory histories, torn/failed/crashed trajectory export and read faults with retry, kept parsers with aborted readings / renamed world, same-size and shorter overwrites under a constant file clock; reference reader as oracle"
DESIGN_REF = "DESIGN.md §5 C10, §3.3"
LEVEL_TEXT = ("seeded exploration of (trajectory x hash schedule x fault plan) for single-agent and joint trajectories, parsed "
              "back with and without the object table; sampling, not proof")
LEVEL_NOTE = "trusts the reference reader; the trajectories are those the library's own exporters produce from generated plans"


def build_single(ctx, W, d, p, ops):
    S = interp.init_state(W.P)
    plan = []
    cur = S
    for _ in range(1 + ops.draw(8)):
        r = C.pick_applicable_call(ctx, W, cur, ops, tries=6)
        if r is None:
            break
        S1, c, want, info = r
        if not interp.state_eq(S1, cur):
            if plan:
                continue
            S = S1
        plan.append(c)
        cur = want
    return S, plan


def run_fixture(ctx, cfg, f):
    """a trajectory file shipped with the repository: the parsed observation must equal the reference reading of the
    file; a copy cut short by a crashed writer must be rejected or equal; a read fault must surface"""
    from . import fixtures
    fx = fixtures.load_trajectory(cfg.draw(len(fixtures.TRAJECTORIES)))
    if "unsupported" in fx:
        ctx.probes["fixture_unsupported"] += 1
        raise Skip()
    ctx.profile = "shipped-trajectory"
    ctx.probes["fixture_trajectory"] += 1
    multi = fx["agents"] is not None
    try:
        try:
            d = C.parse_domain(ctx, fx["dom_text"], "fx-domain.pddl", enable_disjunctions=True)
        except Exception:
            # the trajectory parser only needs the vocabulary; the repository's own tests parse some of these domains
            # with partial_parsing=True (action bodies outside the supported fragment)
            d = C.parse_domain(ctx, fx["dom_text"], "fx-domain.pddl", partial_parsing=True)
            ctx.probes["fixture_domain_partial_parse"] += 1
        p = C.parse_problem(ctx, fx["prob_text"], d, "fx-problem.pddl") if fx["prob_text"] else None
    except Exception:
        ctx.probes["fixture_unparsable"] += 1
        raise Skip()
    path = ctx.rundir / "shipped.trajectory"
    data = fx["traj_text"].encode("utf-8")
    want_states, want_steps = fx["states"], fx["steps"]
    ctx.log("fixture", fx["name"])
    ctx.sample = {"shipped_trajectory": fx["name"], "steps": len(want_steps), "agents": fx["agents"]}
    ctx.nontrivial = True
    mode = f.draw(4)
    if mode == 0:  # torn copy
        k = f.draw(len(data))
        fs.write_real_bytes(path, data[:k])
        ctx.faults["torn_copy"] += 1
        for with_problem in ([True, False] if p is not None else [False]):
            try:
                obs = L().TrajectoryParser(d, p if with_problem else None).parse_trajectory(
                    path, executing_agents=fx["agents"])
            except Exception:
                ctx.probes["torn_trajectory_rejected"] += 1
                continue
            try:
                compare_obs(ctx, obs, multi, want_states, want_steps, None, "TrajectoryParser.parse_trajectory")
            except Violation as v:
                raise Violation("C10/torn-trajectory-accepted-as-different", v.site,
                                f"{fx['name']} cut after {k} of {len(data)} bytes parsed without error: {v.detail}")
    fs.write_real_bytes(path, data)
    if mode == 1:
        exc = [PermissionError(errno.EACCES, "sim"), OSError(errno.EIO, "sim")][f.draw(2)]
        fs.arm_read(["open", "read"][f.draw(2)], exc)
        ctx.faults["parse_read_fault"] += 1
        try:
            L().TrajectoryParser(d, p).parse_trajectory(path, executing_agents=fx["agents"])
        except OSError:
            pass
        else:
            raise Violation("C10/read-fault-swallowed", "TrajectoryParser.parse_trajectory", "returned despite a read error")
        fs.disarm()
    for with_problem in ([True, False] if p is not None else [False]):
        site = f"TrajectoryParser({'domain, problem' if with_problem else 'domain'}).parse_trajectory"
        try:
            obs = L().TrajectoryParser(d, p if with_problem else None).parse_trajectory(path, executing_agents=fx["agents"])
        except Exception as e:
            raise Violation("C10/shipped-trajectory-rejected", site, f"{fx['name']}: {type(e).__name__}: {e}")
        compare_obs(ctx, obs, multi, want_states, want_steps, None, site)
    ctx.steps += len(want_steps)


def run(ctx):
    cfg = ctx.s("cfg")
    ops = ctx.s("ops")
    f = ctx.s("fs")
    if cfg.draw(200 if ctx.tier == "quick" else 50) == 0:
        return run_fixture(ctx, cfg, f)
    multi = cfg.chance(1, 3)
    feat = C.draw_features(ctx)
    feat["hard_numbers"] = cfg.chance(1, 3)
    if multi:
        feat["max_params"] = 2
        nag = 1 + cfg.draw(4)  # a "joint" trajectory of a single agent is legal too
        W = C.World(ctx, feat, multi_agent=True, agents=nag)
    else:
        W = C.World(ctx, feat)
    if cfg.chance(1, 8):  # empty initial state
        W.P = dict(W.P, facts=set())
    agents = [o for o, ty in W.P["objects"].items() if ty == "agent"]
    # ---- plan
    if multi:
        S0 = interp.init_state(W.P)
        for _ in range(3):
            c = G.gen_call(ops, W.D, W.P)
            if c:
                S0 = C.force_applicable(S0, W.action(c[0]), c[1], W)
        cur = S0
        lines = []
        for _ in range(1 + ops.draw(5)):
            members = c16.pick_members(ctx, W, cur, ops, 1 + ops.draw(3))
            if not members:
                break
            ok, nxt, _ = interp.serialisable(cur, [(W.action(a), args) for a, args in members], W.D, W.objs)
            slots = [None] * len(agents)
            for m in members:
                slots[agents.index(c16.agent_of(m, agents))] = m
            lines.append(c16.joint_string(slots))
            cur = nxt
        if not lines:
            raise Skip()
    else:
        S0 = None
    try:
        if multi:
            d, p, s0 = C.lib_world(ctx, W, S0)
        else:
            d, p, s0 = C.lib_world(ctx, W)
    except Exception as e:
        raise Violation("C10/generated-input-rejected", "DomainParser/ProblemParser", f"{type(e).__name__}: {e}")
    if not multi:
        S0, plan = build_single(ctx, W, d, p, ops)
        if not plan:
            raise Skip()
        d, p, s0 = C.lib_world(ctx, W, S0)
        lines = [C.fmt_call(*c) for c in plan]
    from pddl_plus_parser.multi_agent import MultiAgentTrajectoryExporter
    exporter = MultiAgentTrajectoryExporter(d) if multi else L().TrajectoryExporter(d)
    try:
        triplets = exporter.parse_plan(p, action_sequence=list(lines))
    except Exception as e:
        raise Violation("C10/plan-not-executable", "parse_plan", f"{type(e).__name__}: {e}; {lines}")
    want_states = [C.abs_state(triplets[0].previous_state, "exporter", ID)] + [
        C.abs_state(t.next_state, "exporter", ID) for t in triplets]
    if multi:
        want_steps = [[("nop", ()) if op.name == "nop" else (op.name, tuple(op.grounded_call_objects))
                       for op in t.joint_action] for t in triplets]
    else:
        want_steps = [[(t.operator.name, tuple(t.operator.grounded_call_objects))] for t in triplets]
    ctx.log("input", W.dom_text_plain, multi, tuple(lines), [sorted(s[0]) for s in want_states[:2]])
    distinct_states = len({(s[0], tuple(sorted(s[1].items()))) for s in want_states})
    for s in want_states:
        if any(len(set(k[1:])) < len(k) - 1 for k in s[1]):
            ctx.probes["state_with_repeated_argument_fluent"] += 1
            break
    if any(not s[0] for s in want_states):
        ctx.probes["state_without_facts"] += 1
    if any(v < 0 or not float(v).is_integer() for s in want_states for v in s[1].values()):
        ctx.probes["negative_or_fractional_value"] += 1
    if multi and any(c == ("nop", ()) for st in want_steps for c in st):
        ctx.probes["nop_slot"] += 1
    ctx.probes["multi" if multi else "single"] += 1
    # ---- history on the triplets: a window that does not start at the initial state is exported (and read back) first;
    # the triplets are then exported as a whole
    if len(triplets) >= 2 and f.chance(1, 3):
        k0 = 1 + f.draw(len(triplets) - 1)
        wpath = ctx.rundir / "window.trajectory"
        try:
            exporter.export_to_file(triplets[k0:], wpath)
            obs = L().TrajectoryParser(d, p).parse_trajectory(wpath, executing_agents=agents if multi else None)
        except Exception as e:
            raise Violation("C10/exported-trajectory-rejected", "export_to_file(window) -> parse_trajectory",
                            f"window [{k0}:]: {type(e).__name__}: {e}")
        compare_obs(ctx, obs, multi, want_states[k0:], want_steps[k0:], None, "parse_trajectory (window of the trajectory)")
        ctx.probes["window_exported_first"] += 1
    # ---- export under a fault plan
    path = ctx.rundir / "traj.trajectory"
    expected = "".join(exporter.export(triplets)).encode("utf-8")
    plan_kind = ["ack", "ack", "ack", "error", "crash", "crash"][f.draw(6)]
    k = None
    if plan_kind != "ack":
        r = f.draw(6)
        k = 0 if r == 0 else max(0, len(expected) - 1 - f.draw(3)) if r == 1 else f.draw(len(expected) + 1)
        if f.chance(1, 3):
            fs.write_real(path, "((:init ) (operator: (old )) (:state ))")
        fs.arm_write(plan_kind, k, [errno.ENOSPC, errno.EIO][f.draw(2)])
    acked = False
    fault = False
    try:
        exporter.export_to_file(triplets, path)
        acked = True
    except OSError:
        ctx.faults["export_error"] += 1
        fault = True
    except fs.SimCrash:
        ctx.faults["export_crash"] += 1
        fault = True
    except Exception as e:
        raise Violation("C10/export-raised", "export_to_file", f"{type(e).__name__}: {e}")
    fs.disarm()
    on_disk = fs.read_real_bytes(path) if path.exists() else b""
    ctx.log("export", plan_kind, k, len(expected), len(on_disk), acked)
    ctx.measure("write_fault_positions (plan, cut, length)", (plan_kind, k, len(expected)))
    ctx.note(f"{'joint' if multi else 'single'} trajectory, {len(triplets)} steps; export plan={plan_kind} k={k} "
             f"acked={acked} on disk {len(on_disk)}/{len(expected)}")
    ctx.nontrivial = fault or distinct_states >= 2
    ctx.sample = {"multi_agent": multi, "plan": lines[:6], "export_plan": plan_kind, "cut": k, "acked": acked,
                  "first_state": C.short(triplets[0].previous_state.serialize().strip(), 200)}
    if acked and on_disk != expected:
        raise Violation("C10/acknowledged-export-incomplete", "export_to_file",
                        f"{len(on_disk)} bytes on disk, {len(expected)} expected")
    if acked:
        ctx.new_epoch()
        d2, p2, _ = C.lib_world(ctx, W, S0, tag="-r")
        if f.chance(1, 8):
            exc = [PermissionError(errno.EACCES, "sim"), OSError(errno.EIO, "sim")][f.draw(2)]
            fs.arm_read(["open", "read"][f.draw(2)], exc)
            ctx.faults["parse_read_fault"] += 1
            try:
                L().TrajectoryParser(d2, p2).parse_trajectory(path, executing_agents=agents if multi else None)
            except OSError:
                pass
            else:
                raise Violation("C10/read-fault-swallowed", "TrajectoryParser.parse_trajectory",
                                "returned despite a read error")
            fs.disarm()
        check_parse(ctx, d2, p2, path, multi, agents, want_states, want_steps, triplets_states(triplets), True)
        if W.P["objects"] and f.chance(1, 4):
            kept_parser_renamed_world(ctx, W, d2, p2, path, multi, agents, want_states, want_steps, f)
        elif f.chance(1, 3):
            # history on the path: ANOTHER trajectory of exactly the same size is put at the same path (one digit of one
            # fluent value differs) and read; on a file system with coarse timestamps size and mtime are unchanged
            import re
            text0 = fs.read_real_bytes(path).decode("utf-8")
            spots = [m.start(1) for m in re.finditer(r"\(= \([^()]*\) -?([1-9])", text0)]
            if spots:
                i = spots[f.draw(len(spots))]
                text1 = text0[:i] + str(int(text0[i]) % 9 + 1) + text0[i + 1:]
                fs.write_real(path, text1)
                try:
                    states1, steps1 = pddl_reader.read_trajectory_tree(sexpr.read_one(text1))
                except Exception:
                    states1 = None
                if states1 is not None:
                    check_parse(ctx, d2, p2, path, multi, agents, states1, want_steps, None, False)
                    ctx.probes["same_size_variant_over_same_path"] += 1
        elif len(triplets) >= 2 and f.chance(1, 3):
            # history on the path: a SHORTER trajectory (the first step only) is exported over the same file
            try:
                exporter.export_to_file(triplets[:1], path)
            except Exception as e:
                raise Violation("C10/export-raised", "export_to_file (shorter, over the same path)",
                                f"{type(e).__name__}: {e}")
            short_expected = "".join(exporter.export(triplets[:1])).encode("utf-8")
            short_on_disk = fs.read_real_bytes(path)
            if short_on_disk != short_expected:
                raise Violation("C10/acknowledged-export-incomplete", "export_to_file (shorter, over the same path)",
                                f"{len(short_on_disk)} bytes on disk, {len(short_expected)} expected: the file is not "
                                f"what was exported last")
            check_parse(ctx, d2, p2, path, multi, agents, want_states[:2], want_steps[:1], None, False)
            ctx.probes["shorter_export_over_same_path"] += 1
    else:
        ctx.new_epoch()
        d2, p2, _ = C.lib_world(ctx, W, S0, tag="-r")
        for with_problem in (True, False):
            try:
                obs = L().TrajectoryParser(d2, p2 if with_problem else None).parse_trajectory(
                    path, executing_agents=agents if multi else None)
            except Exception:
                ctx.probes["torn_trajectory_rejected"] += 1
                continue
            ctx.probes["torn_trajectory_accepted"] += 1
            try:
                compare_obs(ctx, obs, multi, want_states, want_steps, None, "TrajectoryParser.parse_trajectory")
            except Violation as v:
                raise Violation("C10/torn-trajectory-accepted-as-different", v.site,
                                f"unacknowledged export ({plan_kind} after {k} of {len(expected)} bytes) parsed without "
                                f"error: {v.detail}")
        # retry after faults stopped, from a restarted client
        ctx.new_epoch()
        d3, p3, _ = C.lib_world(ctx, W, S0, tag="-retry")
        exporter3 = MultiAgentTrajectoryExporter(d3) if multi else L().TrajectoryExporter(d3)
        try:
            tr3 = exporter3.parse_plan(p3, action_sequence=list(lines))
            exporter3.export_to_file(tr3, path)
        except Exception as e:
            raise Violation("C10/retry-failed-after-faults-stopped", "export_to_file", f"{type(e).__name__}: {e}")
        ctx.new_epoch()
        d4, p4, _ = C.lib_world(ctx, W, S0, tag="-r2")
        check_parse(ctx, d4, p4, path, multi, agents, want_states, want_steps, None, False)
        ctx.probes["retry_ok"] += 1
    ctx.steps += len(triplets)


def kept_parser_renamed_world(ctx, W, d2, p2, path, multi, agents, want_states, want_steps, f):
    """history: ONE TrajectoryParser object reads the trajectory, then the problem's object table is changed in place
    (an object is replaced by one with another name: same size, same dict), and the same parser reads the trajectory of
    the renamed world.  Both readings must reproduce what was written."""
    import re
    from pddl_plus_parser.models import PDDLObject
    site = "TrajectoryParser kept across calls (object renamed in place in problem.objects)"
    kept = L().TrajectoryParser(d2, p2)
    try:
        obs = kept.parse_trajectory(path, executing_agents=agents if multi else None)
    except Exception as e:
        raise Violation("C10/exported-trajectory-rejected", site, f"{type(e).__name__}: {e}")
    compare_obs(ctx, obs, multi, want_states, want_steps, None, site)
    if f.chance(1, 2):
        # fault in between: a reading that fails half-way (a state with a component the domain does not know, after
        # legal ones); the caller catches the error and keeps the parser
        text0 = fs.read_real_bytes(path).decode("utf-8")
        cut = text0.rfind("(:state")
        if cut > 0:
            end = text0.find("\n", cut)
            line = text0[cut:end if end > 0 else len(text0)].rstrip()
            if line.endswith(")"):
                bad_text = text0[:cut] + line[:-1] + " (no-such-predicate zz))" + text0[cut + len(line):]
                pathb = ctx.rundir / "traj-malformed.trajectory"
                fs.write_real(pathb, bad_text)
                try:
                    kept.parse_trajectory(pathb, executing_agents=agents if multi else None)
                    ctx.probes["malformed_trajectory_accepted"] += 1
                except Exception:
                    ctx.faults["trajectory_reading_aborted"] += 1
    old = sorted(W.P["objects"])[f.draw(len(W.P["objects"]))]
    new = "zren"
    r = lambda x: new if x == old else x
    text = fs.read_real_bytes(path).decode("utf-8")
    # (argument positions only: a token right after '(' is a predicate, function or action name, never an object)
    text2 = re.sub(r"(?<=\s)" + re.escape(old) + r"(?=[\s)])", new, text)
    path2 = ctx.rundir / "traj-renamed.trajectory"
    fs.write_real(path2, text2)
    obj = p2.objects.pop(old)
    p2.objects[new] = PDDLObject(name=new, type=obj.type)
    states2 = [(frozenset((a[0],) + tuple(r(x) for x in a[1:]) for a in S[0]),
                {(k[0],) + tuple(r(x) for x in k[1:]): v for k, v in S[1].items()}) for S in want_states]
    steps2 = [[(n, tuple(r(x) for x in args)) for n, args in st] for st in want_steps]
    agents2 = [r(a) for a in agents]
    try:
        obs2 = kept.parse_trajectory(path2, executing_agents=agents2 if multi else None)
    except Exception as e:
        raise Violation("C10/exported-trajectory-rejected", site,
                        f"after {old} was replaced by {new}: {type(e).__name__}: {e}")
    compare_obs(ctx, obs2, multi, states2, steps2, None, site)
    ctx.probes["kept_parser_renamed_world"] += 1


def triplets_states(triplets):
    return [triplets[0].previous_state] + [t.next_state for t in triplets]


def check_parse(ctx, d, p, path, multi, agents, want_states, want_steps, lib_states, same_epoch_states):
    for with_problem in (True, False):
        site = f"TrajectoryParser({'domain, problem' if with_problem else 'domain'}).parse_trajectory"
        try:
            obs = L().TrajectoryParser(d, p if with_problem else None).parse_trajectory(
                path, executing_agents=agents if multi else None)
        except Exception as e:
            ctx.note("file: " + fs.read_real_bytes(path).decode("utf-8", "replace")[:600])
            raise Violation("C10/exported-trajectory-rejected", site, f"{type(e).__name__}: {e}",
                            {"with_problem": with_problem})
        compare_obs(ctx, obs, multi, want_states, want_steps, None, site)
        ctx.probes["parsed_with_problem" if with_problem else "parsed_objects_deduced"] += 1


def compare_obs(ctx, obs, multi, want_states, want_steps, lib_states, site):
    comps = obs.components
    if len(comps) != len(want_steps):
        raise Violation("C10/component-count", site, f"{len(comps)} components for {len(want_steps)} actions")
    prev_post = None
    for i, c in enumerate(comps):
        if multi:
            got = [(a.name, tuple(a.parameters)) for a in c.grounded_joint_action.actions]
        else:
            got = [(c.grounded_action_call.name, tuple(c.grounded_action_call.parameters))]
        if got != want_steps[i]:
            raise Violation("C10/action-call-differs", site, f"step {i}: {got} != {want_steps[i]}")
        pre = C.abs_state(c.previous_state, site, ID)
        post = C.abs_state(c.next_state, site, ID)
        if not interp.state_eq(pre, want_states[i]):
            raise Violation("C10/state-differs", site, f"step {i} pre-state: {interp.state_diff(pre, want_states[i])}")
        if not interp.state_eq(post, want_states[i + 1]):
            raise Violation("C10/state-differs", site, f"step {i} post-state: {interp.state_diff(post, want_states[i + 1])}")
        if prev_post is not None:
            if not (c.previous_state == prev_post):
                raise Violation("C10/observation-not-a-chain", site,
                                f"component {i}: previous_state != next_state of component {i - 1} (library ==)")
        prev_post = c.next_state
