"""Helpers shared by the property scenarios: thin, explicit wrappers around library calls."""
import os

from sim import fs
from sim.engine import Violation, Skip
from ref import interp, sexpr, walker

_L = {}


def L():
    """lazy namespace of library entry points (imported from VERIF_REPO)"""
    if not _L:
        from pddl_plus_parser.lisp_parsers import DomainParser, ProblemParser, TrajectoryParser, PDDLTokenizer
        from pddl_plus_parser import models
        from pddl_plus_parser.models import Operator, State, Domain
        from pddl_plus_parser.exporters import DomainExporter, ProblemExporter, TrajectoryExporter
        _L.update(DomainParser=DomainParser, ProblemParser=ProblemParser, TrajectoryParser=TrajectoryParser,
                  PDDLTokenizer=PDDLTokenizer, models=models, Operator=Operator, State=State, Domain=Domain,
                  DomainExporter=DomainExporter, ProblemExporter=ProblemExporter,
                  TrajectoryExporter=TrajectoryExporter)
    import types
    return types.SimpleNamespace(**_L)


def put(ctx, name, text, sub=None):
    d = ctx.rundir if sub is None else sub
    p = d / name
    fs.write_real(p, text)
    return p


def parse_domain(ctx, text, name="domain.pddl", **kw):
    p = put(ctx, name, text)
    return L().DomainParser(p, **kw).parse_domain()


def parse_problem(ctx, text, domain, name="problem.pddl"):
    p = put(ctx, name, text)
    return L().ProblemParser(p, domain).parse_problem()


def initial_state(problem):
    return L().State(problem.initial_state_predicates, problem.initial_state_fluents, is_init=True)


def abs_from_text(state):
    """abstract value of a library state, read from its serialized text by the independent reader"""
    return interp.read_state_text(state.serialize())


def abs_state(state, site, prop, caller_made_duplicates=False):
    """abstract value of a library State by both observation routes (serialized text / structure); they must agree
    and the text must not list a ground atom twice (a state is a set of facts) - unless the caller itself united the
    fact objects of two states into this one (objects of one fact with different type annotations are then both kept)"""
    txt = state.serialize()
    try:
        a_txt = interp.read_state_text(txt)
    except Exception as e:
        raise Violation(f"{prop}/state-text-unreadable", site, f"{type(e).__name__}: {e}: {txt[:200]}")
    try:
        a_obj, nfacts = walker.w_state(state)
    except walker.WalkError as e:
        raise Violation(f"{prop}/state-structure-inconsistent", site, str(e))
    if not interp.state_eq(a_txt, a_obj):
        raise Violation(f"{prop}/state-text-differs-from-content", site, interp.state_diff(a_txt, a_obj))
    dup = interp.dup_facts_in_state_text(txt)
    if dup and not caller_made_duplicates:
        raise Violation(f"{prop}/state-lists-fact-twice", site, f"{dup[:3]}")
    return a_txt


def fmt_call(name, args):
    return "(" + " ".join([name] + list(args)) + ")"


def short(x, n=300):
    s = str(x)
    return s if len(s) <= n else s[:n] + "..."


# ------------------------------------------------------------------------------------------------ worlds
from gen import pddl as G


def draw_features(ctx, base=None, allow=("subtypes", "constants", "neg", "equality", "numeric", "when", "forall_eff")):
    """swarm configuration of the generated PDDL: each optional construct is switched on/off per run"""
    c = ctx.s("cfg")
    feat = dict(G.DEFAULT_FEAT)
    for k in allow:
        feat[k] = c.chance(3, 4)
    # nested (or / and-in-or), universally quantified and unwrapped (no 'and') preconditions: part of every workload
    # since the repairs 22ef5c6 / 8b38173 (before, they were finding profiles of C04)
    feat["or_pre"] = c.draw(4) == 0
    feat["forall_pre"] = c.draw(4) == 0
    feat["bare_pre"] = c.draw(3) == 0
    feat["nested_cond"] = c.draw(3) == 0  # or / forall inside the conditions of when effects
    feat["join_names"] = c.draw(6) == 0  # object names whose joins collide (x, x_x, x-x, ...)
    feat["nested_numeric"] = c.draw(2) == 0  # fluent-against-constant comparisons inside nested conditions
    feat["dense_quant"] = c.draw(4) == 0  # several quantified conditions (often shadowing a parameter) per action
    feat["object_params"] = c.draw(3) == 0  # 'object' itself as a parameter / predicate-slot type
    feat["tiny_offsets"] = True  # ... whose constants may differ only beyond the 4th decimal (not where a domain is exported)
    feat["max_objects"] = 3 + c.draw(3) if c.draw(8) else 6 + c.draw(3)
    feat["max_actions"] = 1 + c.draw(3) if c.draw(8) else 4 + c.draw(2)
    feat["long_names"] = c.draw(12) == 0
    feat["child_first_types"] = c.draw(3) == 0  # ':types' lines written children first (forward references)
    feat.update(base or {})
    return feat


class World:
    """a generated (domain, problem) as AST + text"""

    def __init__(self, ctx, feat, multi_agent=False, agents=0, noise_level=None):
        t = ctx.s("workload")
        self.feat = feat
        self.D = G.gen_domain(t, feat, multi_agent=multi_agent)
        self.P = G.gen_problem(t, self.D, feat, agents=agents)
        if self.D.pop("_near_dup_siblings", 0):
            ctx.probes["domain_with_near_duplicate_sibling_conditions"] += 1
        self.objs = G.all_objects(self.D, self.P)
        lvl = ctx.s("cfg").draw(3) if noise_level is None else noise_level
        # the requirements line: typed domains are also written with a line that does not mention :typing
        reqs = [(":typing",), (":typing",), (":strips", ":typing"), (":adl",), (":strips",),
                (":strips", ":equality", ":negative-preconditions", ":numeric-fluents")][ctx.s("cfg").draw(6)]
        raw = G.render_domain(self.D, child_first=feat.get("child_first_types", False), requirements=reqs)
        self.dom_text = G.noise(raw, ctx.s("workload"), lvl) if lvl else raw
        self.dom_text_plain = raw

    def problem_text(self, S=None, order=None):
        P = self.P if S is None else dict(self.P, facts=set(S[0]), fluents=dict(S[1]))
        return G.render_problem(self.D, P, order)

    def action(self, name):
        return self.D["actions"][name]


def lib_world(ctx, W, S=None, order=None, tag=""):
    """parse the world's domain and a problem whose init section is the abstract state S (default: the problem's
    own).  -> (domain, problem, state).  Library exceptions propagate (caller decides what they mean)."""
    d = parse_domain(ctx, W.dom_text, f"domain{tag}.pddl")
    p = parse_problem(ctx, W.problem_text(S, order), d, f"problem{tag}.pddl")
    return d, p, initial_state(p)


def ref_walk(ctx, W, steps, stream=None):
    """random walk of applicable, consistent calls in the reference interpreter from the problem's initial state.
    -> (state, trail [(aname,args)])"""
    t = stream or ctx.s("ops")
    S = interp.init_state(W.P)
    trail = []
    for _ in range(steps):
        done = False
        for _try in range(6):
            c = G.gen_call(t, W.D, W.P)
            if c is None:
                continue
            a, args = c
            try:
                if interp.applicable(S, W.action(a), args, W.D, W.objs):
                    S2, _ = interp.successor(S, W.action(a), args, W.D, W.objs)
                    if interp.too_large(S2):
                        continue
                    S = S2
                    trail.append((a, args))
                    done = True
                    break
            except (interp.Inconsistent, interp.Undefined):
                continue
        if not done:
            break
    return S, trail


def force_applicable(S, act, args, W):
    """adjust the abstract state so that the top-level positive/negative literals of the precondition hold for the
    call (any state is in the properties' quantifier; this only raises the share of applicable calls)"""
    b = interp.binding(act, args)
    facts = set(S[0])
    for f in act["pre"][1]:
        if f[0] == "atom":
            facts.add((f[1],) + tuple(b.get(a, a) for a in f[2]))
        elif f[0] == "not":
            facts.discard((f[1][1],) + tuple(b.get(a, a) for a in f[1][2]))
    return (frozenset(facts), dict(S[1]))


def pick_applicable_call(ctx, W, S, stream, tries=12, want_consistent=True):
    """-> (S', (aname,args), successor, info) or None.  S' may differ from S (force_applicable)."""
    for i in range(tries):
        c = G.gen_call(stream, W.D, W.P)
        if c is None:
            continue
        act = W.action(c[0])
        S1 = force_applicable(S, act, c[1], W) if stream.chance(2, 3) else S
        try:
            if interp.applicable(S1, act, c[1], W.D, W.objs):
                want, info = interp.successor(S1, act, c[1], W.D, W.objs)
                if interp.too_large(want):
                    continue
                return S1, c, want, info
        except interp.Inconsistent:
            ctx.probes["inconsistent_skipped"] += 1
        except interp.Undefined:
            ctx.probes["undefined_skipped"] += 1
    return None


class FixtureWorld:
    """a shipped (domain, problem) of the repository's test data with its reference reading; same interface as World"""

    def __init__(self, fx):
        self.fx = fx
        self.D = fx["D"]
        self.P = dict(fx["P"], goal=[])
        self.objs = {**fx["P"]["objects"], **fx["D"]["constants"]}
        self.dom_text = fx["dom_text"]
        self.dom_text_plain = fx["name"]
        self.feat = {}

    def problem_text(self, S=None, order=None):
        if S is None:
            return self.fx["prob_text"]
        P = dict(self.P, facts=set(S[0]), fluents=dict(S[1]))
        return G.render_problem(self.D, P, order)

    def action(self, name):
        return self.D["actions"][name]


def concurrent(ctx, thunks, p_den=60, forced_max=4):
    """run the thunks (callables returning a comparable value) on real threads under the tape-driven pre-emptive
    scheduler (one baton, pre-emption at line granularity inside the repository's package).
    -> list of ('ok', value) | ('exc', class name), in thunk order."""
    import os
    from sim import sched as schedmod
    sc = ctx.s("sched")
    pkg = os.path.join(os.environ.get("VERIF_REPO", "/repo"), "pddl_plus_parser")
    forced = sorted({1 + sc.draw(3000) for _ in range(sc.draw(forced_max + 1))})
    S = schedmod.Sched(sc, pkg, p_num=1, p_den=p_den, forced=forced)
    results = [None] * len(thunks)

    def mk(i, fn):
        def body():
            try:
                results[i] = ("ok", fn())
            except Violation as v:
                results[i] = ("violation", v)
            except Exception as e:
                results[i] = ("exc", type(e).__name__)
        return body

    for i, fn in enumerate(thunks):
        S.spawn(f"client{i}", mk(i, fn))
    S.run()
    ctx.faults["preemptions"] += S.switches
    ctx.probes["traced_lines"] += S.lines
    ctx.probes["concurrent_scenarios"] += 1
    ctx.log("schedule", tuple(S.schedule[:100]))
    if S.schedule:
        ctx.measure("thread_schedules (sequence of (traced line, thread) switch points)", tuple(S.schedule))
    for r in results:
        if r and r[0] == "violation":
            raise r[1]
    return results, S.switches


def interrupted(ctx, fn):
    """runs fn() on one scheduler thread and raises a cancellation (SimCancel) at a tape-chosen traced line inside the
    repository's package - the fault 'the caller's first use of an object was interrupted' (Ctrl-C, timeout, task
    cancellation).  -> True when the cancellation fired inside fn (fn's own exceptions are swallowed)."""
    import os
    from sim import sched as schedmod
    sc = ctx.s("sched")
    pkg = os.path.join(os.environ.get("VERIF_REPO", "/repo"), "pddl_plus_parser")
    k = 1 + sc.draw(1 << sc.draw(11))
    S = schedmod.Sched(sc, pkg, p_num=0, cancel_at=(k,))

    def body():
        try:
            fn()
        except schedmod.SimCancel:
            pass
        except Exception:
            pass

    S.spawn("client0", body)
    S.run()
    ctx.faults["cancellations"] += S.cancels
    ctx.measure("cancellation points (traced line of the interrupted call)", (k, S.cancels))
    return S.cancels > 0


def merge_foralls(ctx, d):
    """model-level edit through the object API: the universal effects of an action that quantify the same variable over
    the same type are merged into ONE UniversalEffect holding all their conditional effects (the class keeps a set of
    them; the parser happens to create one per forall).  Same meaning, another shape of the model."""
    merged = 0
    for act in d.actions.values():
        by = {}
        for ue in list(act.universal_effects):  # (iteration order is the hash seam's: reproducible)
            by.setdefault((ue.quantified_parameter, ue.quantified_type.name), []).append(ue)
        for group in by.values():
            if len(group) < 2:
                continue
            keep = group[0]
            for other in group[1:]:
                keep.conditional_effects.update(other.conditional_effects)
                act.universal_effects.discard(other)
            merged += 1
    if merged:
        ctx.probes["model_with_merged_forall_effects"] += 1
    return merged


def revise_model(ctx, W, d, t, kinds=("add_effect", "drop_disjunct")):
    """history 'the model is revised in place' (what a learner does between two uses of its helper objects): one action
    of the library domain d is edited through the object API and the same edit is made on a copy of the AST.
      add_effect:    an unconditional add / delete effect is added to an action
      drop_disjunct: one literal is removed from a nested (or ...) of an action's precondition
    -> (W2, description) or None when the domain offers no place for the drawn kind."""
    import copy
    from pddl_plus_parser.lisp_parsers.parsing_utils import parse_untyped_predicate
    from pddl_plus_parser.models import Predicate
    from pddl_plus_parser.models.pddl_precondition import Precondition
    kind = kinds[t.draw(len(kinds))]
    if kind == "reparent_type":
        # a type with descendants gets another parent (e.g. vehicle - object becomes vehicle - movable): the subtype
        # relation of every descendant changes with it
        types = W.D["types"]
        implicit = W.D.get("implicit_types", ())
        cands = [n for n in types if n != "agent" and n not in implicit and any(p_ == n for p_ in types.values())]
        if not cands:
            return None
        ty = cands[t.draw(len(cands))]

        def descends(a, b):  # a is b or below b
            n = 0
            while a != "object" and n < 50:
                if a == b:
                    return True
                a = types.get(a, "object")
                n += 1
            return False
        # the new parent lies below the old one, so every subtype relation that held still holds (the problem's facts and
        # the actions stay well typed) and new ones are added
        old_parent = types[ty]
        targets = [n for n in types if n != old_parent and n != "agent" and n not in implicit and not descends(n, ty)
                   and (old_parent == "object" or descends(n, old_parent))]
        if not targets:
            return None
        newp = targets[t.draw(len(targets))]
        d.types[ty].parent = d.types[newp]
        D2 = copy.deepcopy(W.D)
        D2["types"][ty] = newp
        W2 = copy.copy(W)
        W2.D = D2
        W2.objs = G.all_objects(D2, W.P)
        W2.dom_text = W2.dom_text_plain = G.render_domain(D2, child_first=True)
        ctx.probes["model_revised_reparent_type"] += 1
        return W2, f"type {ty}: parent {types[ty]} -> {newp}"
    names = sorted(W.D["actions"])
    aname = names[t.draw(len(names))]
    act = W.D["actions"][aname]
    lib_act = d.actions[aname]
    D2 = copy.deepcopy(W.D)
    if kind == "drop_effect":
        # an unconditional add / delete effect is removed from the action
        cands = [e for e in act["eff"] if e[0] in ("add", "del") and act["eff"].count(e) == 1
                 and ("del" if e[0] == "add" else "add", e[1]) not in act["eff"]]
        if not cands:
            return None
        e = cands[t.draw(len(cands))]
        want_tokens = [e[1][1]] + list(e[1][2])
        import re
        target = [x for x in lib_act.discrete_effects if x.is_positive == (e[0] == "add")
                  and re.findall(r"[^\s()]+", x.untyped_representation)[-len(want_tokens):] == want_tokens
                  and (x.is_positive or "not" in x.untyped_representation)]
        if len(target) != 1:
            return None
        lib_act.discrete_effects.discard(target[0])
        D2["actions"][aname]["eff"] = [x for x in D2["actions"][aname]["eff"] if x != e]
        what = f"{aname}: effect {G.r_e(e)} removed"
    elif kind == "add_effect":
        atom = G.gen_atom(t, W.D, act["params"])
        if atom is None:
            return None
        positive = t.draw(2) == 0
        e = ("add" if positive else "del", atom)
        if e in act["eff"]:
            return None
        lib_act.discrete_effects.add(parse_untyped_predicate([atom[1]] + list(atom[2]), lib_act.signature, d.constants,
                                                             is_positive=positive))
        D2["actions"][aname]["eff"] = list(D2["actions"][aname]["eff"]) + [e]
        what = f"{aname}: effect {G.r_e(e)} added"
    else:
        # a nested disjunction with at least two plain literals
        # (at least two DIFFERENT literals: the library keeps one copy of a repeated literal, and an emptied
        # disjunction is not a shape PDDL text can express)
        spots = [(i, x) for i, x in enumerate(act["pre"][1]) if x[0] == "or"
                 and len({repr(y) for y in x[1] if y[0] in ("atom", "not")}) >= 2]
        if not spots:
            return None
        i, disj = spots[t.draw(len(spots))]
        # (a literal that occurs once in the whole precondition: remove_condition removes the first equal literal it meets
        # anywhere below the root, so only then is it clear which occurrence the caller's edit removes)
        def count(x, lit_):
            if x == lit_:
                return 1
            if x[0] in ("and", "or"):
                return sum(count(y, lit_) for y in x[1])
            if x[0] == "forall":
                return count(x[3], lit_)
            return 0
        lits = [y for y in disj[1] if y[0] in ("atom", "not") and count(act["pre"], y) == 1
                and count(act["pre"], ("not", y) if y[0] == "atom" else y[1]) == 0]
        if not lits:
            return None
        lit = lits[t.draw(len(lits))]
        import re
        a = lit if lit[0] == "atom" else lit[1]
        want_tokens = [a[1]] + list(a[2])
        target = None
        for nested in lib_act.preconditions.root.operands:
            if isinstance(nested, Precondition) and nested.binary_operator == "or":
                for op in nested.operands:
                    if isinstance(op, Predicate) and op.is_positive == (lit[0] == "atom") \
                            and re.findall(r"[^\s()]+", op.untyped_representation)[-len(want_tokens):] == want_tokens \
                            and (op.is_positive or "not" in op.untyped_representation):
                        target = op
        if target is None:
            return None
        lib_act.preconditions.remove_condition(target)
        new_disj = ("or", [y for y in disj[1] if y != lit])
        pre = list(D2["actions"][aname]["pre"][1])
        pre[i] = new_disj
        D2["actions"][aname]["pre"] = ("and", pre)
        what = f"{aname}: literal {G.r_f(lit)} removed from {G.r_f(disj)}"
    W2 = copy.copy(W)
    W2.D = D2
    W2.objs = G.all_objects(D2, W.P)
    raw = G.render_domain(D2, child_first=W.feat.get("child_first_types", False))
    W2.dom_text = W2.dom_text_plain = raw
    ctx.probes[f"model_revised_{kind}"] += 1
    return W2, what


def inspect_object(obj, depth=2, seen=None):
    """an observer (a debugger, a logging formatter, a test's assertion message) reads every public property and the
    printed form of an object and of the library objects it holds; reading is all it does.  Errors are ignored."""
    seen = set() if seen is None else seen
    if id(obj) in seen or depth < 0:
        return
    seen.add(id(obj))
    cls = type(obj)
    if not cls.__module__.startswith("pddl_plus_parser"):
        if isinstance(obj, (list, tuple, set, frozenset)):
            for x in list(obj)[:50]:
                inspect_object(x, depth - 1, seen)
        elif isinstance(obj, dict):
            for x in list(obj.values())[:50]:
                inspect_object(x, depth - 1, seen)
        return
    for name in dir(cls):
        if name.startswith("_"):
            continue
        if isinstance(getattr(cls, name, None), property):
            try:
                inspect_object(getattr(obj, name), depth - 1, seen)
            except Exception:
                pass
    try:
        str(obj)
    except Exception:
        pass
    for v in list(getattr(obj, "__dict__", {}).values()):
        inspect_object(v, depth - 1, seen)
