"""Helpers shared by the property scenarios: thin, explicit wrappers around library calls."""
import os

from sim import fs
from sim.engine import Violation, Skip
from ref import interp, sexpr, walker

_L = {}


def L():
    """lazy namespace of library entry points (imported from VERIF_REPO)"""
    if not _L:
        from pddl_plus_parser.lisp_parsers import DomainParser, ProblemParser, TrajectoryParser, PDDLTokenizer
        from pddl_plus_parser import models
        from pddl_plus_parser.models import Operator, State, Domain
        from pddl_plus_parser.exporters import DomainExporter, ProblemExporter, TrajectoryExporter
        _L.update(DomainParser=DomainParser, ProblemParser=ProblemParser, TrajectoryParser=TrajectoryParser,
                  PDDLTokenizer=PDDLTokenizer, models=models, Operator=Operator, State=State, Domain=Domain,
                  DomainExporter=DomainExporter, ProblemExporter=ProblemExporter,
                  TrajectoryExporter=TrajectoryExporter)
    import types
    return types.SimpleNamespace(**_L)


def put(ctx, name, text, sub=None):
    d = ctx.rundir if sub is None else sub
    p = d / name
    fs.write_real(p, text)
    return p


def parse_domain(ctx, text, name="domain.pddl", **kw):
    p = put(ctx, name, text)
    return L().DomainParser(p, **kw).parse_domain()


def parse_problem(ctx, text, domain, name="problem.pddl"):
    p = put(ctx, name, text)
    return L().ProblemParser(p, domain).parse_problem()


def initial_state(problem):
    return L().State(problem.initial_state_predicates, problem.initial_state_fluents, is_init=True)


def abs_from_text(state):
    """abstract value of a library state, read from its serialized text by the independent reader"""
    return interp.read_state_text(state.serialize())


def abs_state(state, site, prop):
    """abstract value of a library State by both observation routes (serialized text / structure); they must agree
    and the text must not list a ground atom twice (a state is a set of facts)"""
    txt = state.serialize()
    try:
        a_txt = interp.read_state_text(txt)
    except Exception as e:
        raise Violation(f"{prop}/state-text-unreadable", site, f"{type(e).__name__}: {e}: {txt[:200]}")
    try:
        a_obj, nfacts = walker.w_state(state)
    except walker.WalkError as e:
        raise Violation(f"{prop}/state-structure-inconsistent", site, str(e))
    if not interp.state_eq(a_txt, a_obj):
        raise Violation(f"{prop}/state-text-differs-from-content", site, interp.state_diff(a_txt, a_obj))
    dup = interp.dup_facts_in_state_text(txt)
    if dup:
        raise Violation(f"{prop}/state-lists-fact-twice", site, f"{dup[:3]}")
    return a_txt


def fmt_call(name, args):
    return "(" + " ".join([name] + list(args)) + ")"


def short(x, n=300):
    s = str(x)
    return s if len(s) <= n else s[:n] + "..."
