"""C04 - a plan is turned into the trajectory that the transition function dictates.

Simulation dimension: history (the step sequence; valid and invalid steps interleaved at tape-chosen positions), S1
(hash schedule), S5 (the plan file: read faults).  Oracle: step-by-step refinement of the reference transition system."""
import errno

from sim import fs
from sim.engine import Violation, Skip
from ref import interp, sexpr, pddl_reader
from gen import pddl as G
from . import common as C
from .common import L

ID = "C04"
RUNS = {"quick": 20_000, "thorough": 400_000}
BUDGET_S = {"quick": 120, "thorough": 800}
CHUNK = 250
RULE = ("each run draws (domain, problem) and a plan of 0-10 steps built by a reference random walk with inapplicable "
        "steps injected at tape-chosen positions, delivered as a plan file (possibly with a read fault) or as an "
        "action_sequence, with allow_invalid_actions in {False, True}; the triplets and the exported text are checked "
        "step by step against the reference; non-trivial = >= 2 steps of which one changes the state, or an invalid "
        "step present; distinct = distinct history digests")
ASSUMPTIONS = ["ref/interp.py is the transition function", "the successor of an inapplicable action is undefined: when "
               "invalid actions are allowed only 'no refusal, chain intact' is demanded and the reference re-synchronises "
               "on the library's post-state", "plan lines have the form '(name arg ...)' with blanks/case noise"]
REAL_VS_STUB = {"real": ["TrajectoryExporter.parse_plan/create_single_triplet/export/export_to_file, Operator, State, "
                         "parsers"], "stub": ["__hash__ seam", "builtins.open seam (plan file read faults)"]}
TECHNIQUE = "deterministic simulation: seeded plan histories with injected invalid steps, plan-file read faults, exporter / operator re-use across in-place model revisions and cancellations; refinement check against a reference transition system"
DESIGN_REF = "DESIGN.md §5 C04"
LEVEL_TEXT = ("seeded exploration of plans (valid/invalid steps at every position, both settings of the allow switch, file and "
              "in-memory delivery, read faults); every triplet and the exported text are checked against the reference "
              "interpreter; sampling, not proof")
LEVEL_NOTE = "trusts the reference interpreter; nested or/and, forall and unwrapped preconditions included (D2/D3/D25 repaired); no numeric comparison inside a nested condition"


def find_invalid_call(W, S, stream, tries=10):
    for _ in range(tries):
        c = G.gen_call(stream, W.D, W.P)
        if c is None:
            continue
        try:
            if not interp.applicable(S, W.action(c[0]), c[1], W.D, W.objs):
                return c
        except interp.Undefined:
            pass
    return None


def render_line(c, t):
    name, args = c
    s = "(" + " ".join([name] + list(args)) + ")"
    r = t.draw(6)
    if r == 0:
        s = s.upper()
    elif r == 1:
        s = "( " + "  ".join([name] + list(args)) + " )"
    elif r == 2:
        s = s.replace(" ", "\t", 1)
    return s


def run(ctx):
    cfg = ctx.s("cfg")
    prof = cfg.draw(8)
    base = {}
    if prof == 0:
        base = {"or_pre": True}
        ctx.profile = "or-preconditions"
    elif prof == 1:
        base = {"forall_pre": True}
        ctx.profile = "forall-preconditions"
    from . import fixtures
    use_fixture = cfg.draw(100 if ctx.tier == "quick" else 25) == 0
    feat = C.draw_features(ctx, base)
    if ctx.s("deep").draw(10) == 0:
        feat["deep_types"] = True  # type chains of 9-12 levels (own stream: the other draws are unchanged)
        ctx.probes["deep_type_chain"] += 1
    ops = ctx.s("ops")
    allow = cfg.chance(1, 2)
    if use_fixture:
        fx = fixtures.load_single(cfg.draw(len(fixtures.SINGLE_TRIPLES)))
        if "unsupported" in fx:
            ctx.probes["fixture_unsupported"] += 1
            raise Skip()
        ctx.profile = "shipped-plan"
        ctx.probes["fixture_plan"] += 1
        W = C.FixtureWorld(fx)
        ctx.W = W
        return run_fixture(ctx, W, fx, allow, cfg, ops)
    W = C.World(ctx, feat)
    ctx.W = W
    n = cfg.draw(11)
    p_invalid = [0, 1, 2, 4][cfg.draw(4)]  # out of 8
    # ---- build the plan with the reference
    S = interp.init_state(W.P)
    plan = []  # (call, kind, expected post-state or None)
    cur = S
    for i in range(n):
        c = None
        if ops.draw(8) < p_invalid:
            c = find_invalid_call(W, cur, ops)
            if c is not None:
                plan.append((c, "invalid", None))
                if allow:
                    cur = None  # undefined from here until re-synchronised on the library's state
                    break  # keep it simple: an allowed invalid step ends the reference-predicted part
                continue
        r = C.pick_applicable_call(ctx, W, cur, ops, tries=8) if cur is not None else None
        if r is None:
            break
        S1, c, want, info = r
        if S1 != cur and not interp.state_eq(S1, cur):
            # force_applicable changed the state: only allowed for the very first step (we can choose the init state)
            if plan:
                continue
            S = S1
        plan.append((c, "valid", want))
        cur = want
    # a tail of arbitrary type-correct calls after an allowed invalid step (chain-only checking)
    if cur is None:
        for _ in range(cfg.draw(3)):
            c = G.gen_call(ops, W.D, W.P)
            if c:
                plan.append((c, "free", None))
    calls = [c for c, _, _ in plan]
    lines = [render_line(c, ops) for c in calls]
    execute_plan(ctx, W, S, plan, lines, allow, cfg, ops)


def run_fixture(ctx, W, fx, allow, cfg, ops):
    """a shipped planner plan (optionally with a foreign step spliced in), classified step by step by the reference"""
    from . import fixtures
    lines = list(fx["plan_lines"])[: 5 + cfg.draw(60)]
    if cfg.chance(1, 2) and len(lines) >= 2:
        # splice a step of the same plan into another position: usually inapplicable there
        src = lines[ops.draw(len(lines))]
        lines.insert(ops.draw(len(lines) + 1), src)
    S = interp.init_state(W.P)
    cur = S
    plan = []
    for l in lines:
        a, args = fixtures.parse_plan_line(l)
        c = (a, args)
        if cur is None:
            plan.append((c, "free", None))
            continue
        try:
            app = interp.applicable(cur, W.action(a), args, W.D, W.objs)
            nxt = interp.successor(cur, W.action(a), args, W.D, W.objs)[0] if app else None
        except (interp.Inconsistent, interp.Undefined):
            plan.append((c, "free", None))
            cur = None
            continue
        if app:
            plan.append((c, "valid", nxt))
            cur = nxt
        else:
            plan.append((c, "invalid", None))
            if allow:
                cur = None
    execute_plan(ctx, W, S, plan, lines, allow, cfg, ops)


def execute_plan(ctx, W, S, plan, lines, allow, cfg, ops):
    calls = [c for c, _, _ in plan]
    ctx.log("plan", W.dom_text_plain, len(S[0]), sorted(S[0])[:40], sorted(S[1].items())[:40], tuple(lines), allow)
    ctx.sample = {"plan": lines, "kinds": [k for _, k, _ in plan], "allow_invalid_actions": allow,
                  "init_facts": sorted(S[0])[:10]}
    ctx.nontrivial = any(k == "invalid" for _, k, _ in plan) or (
        len(plan) >= 2 and any(k == "valid" and w is not None for _, k, w in plan))
    for k in ("invalid", "valid", "free"):
        if any(kk == k for _, kk, _ in plan):
            ctx.probes[f"plan_has_{k}"] += 1
    if plan and plan[0][1] == "invalid":
        ctx.probes["invalid_first"] += 1
    if plan and plan[-1][1] == "invalid":
        ctx.probes["invalid_last"] += 1
    ctx.probes[f"plan_len_{min(len(plan), 3)}{'+' if len(plan) >= 3 else ''}"] += 1

    try:
        d, p, s0 = C.lib_world(ctx, W, S if not isinstance(W, C.FixtureWorld) else None)
    except Exception as e:
        raise Violation("C04/generated-input-rejected", "DomainParser/ProblemParser", f"{type(e).__name__}: {e}")
    exporter = L().TrajectoryExporter(d, allow_invalid_actions=allow)
    via_file = cfg.chance(2, 3)
    site = "TrajectoryExporter.parse_plan"
    if via_file:
        path = C.put(ctx, "plan.solution", "".join(l + "\n" for l in lines))
        if cfg.chance(1, 6):
            exc = [FileNotFoundError(errno.ENOENT, "sim"), PermissionError(errno.EACCES, "sim"),
                   OSError(errno.EIO, "sim")][ctx.s("fs").draw(3)]
            where = ["open", "read"][ctx.s("fs").draw(2)]
            fs.arm_read(where, exc)
            ctx.faults[f"plan_read_fault_{where}"] += 1
            try:
                tr = exporter.parse_plan(p, plan_path=path)
            except OSError:
                ctx.log("read-fault", "raised")
                tr = None
            else:
                raise Violation("C04/read-fault-swallowed", site,
                                f"plan file could not be read ({type(exc).__name__} at {where}) but parse_plan returned "
                                f"{len(tr)} triplets")
            # once the fault is gone a retry must succeed
        try:
            triplets = exporter.parse_plan(p, plan_path=path)
        except Exception as e:
            raise Violation("C04/plan-rejected", site, f"{type(e).__name__}: {e}; plan={lines}")
    else:
        try:
            triplets = exporter.parse_plan(p, action_sequence=list(lines))
        except Exception as e:
            raise Violation("C04/plan-rejected", site, f"{type(e).__name__}: {e}; plan={lines}")
    check_triplets(ctx, W, S, plan, triplets, allow, site)
    # ---- exported text
    if triplets:
        try:
            text = "".join(exporter.export(triplets))
            tree = sexpr.read_one(text)
            states, steps = pddl_reader.read_trajectory_tree(tree)
        except Exception as e:
            raise Violation("C04/exported-trajectory-unreadable", "TrajectoryExporter.export",
                            f"{type(e).__name__}: {e}")
        if len(steps) != len(plan) or len(states) != len(plan) + 1:
            raise Violation("C04/exported-trajectory-shape", "TrajectoryExporter.export",
                            f"{len(states)} states / {len(steps)} operators for {len(plan)} plan lines")
        for i, (c, _, _) in enumerate(plan):
            if steps[i] != [(c[0], tuple(c[1]))]:
                raise Violation("C04/exported-operator-differs", "TrajectoryExporter.export",
                                f"step {i}: {steps[i]} != {c}")
        absn = [C.abs_state(triplets[0].previous_state, "export", ID)] + [
            C.abs_state(t.next_state, "export", ID) for t in triplets]
        for i, (a, b) in enumerate(zip(states, absn)):
            if not interp.state_eq(a, b):
                raise Violation("C04/exported-state-differs", "TrajectoryExporter.export",
                                f"state {i}: {interp.state_diff(a, b)}")
    # ---- history on the exporter object: the same exporter runs further plans (a refused call retried from a state in
    # which it is applicable, then a fresh random plan); every plan must again conform
    if not isinstance(W, C.FixtureWorld) and cfg.chance(1, 2):
        reuse_exporter(ctx, W, S, plan, exporter, allow, ops)
    # ---- direct application of each step: refusal guard
    cur = S
    for i, (c, kind, want) in enumerate(plan):
        if cur is None:
            break
        if kind == "invalid" or (kind == "valid" and ops.chance(1, 3)):
            dd, pp, st = C.lib_world(ctx, W, cur, tag=f"-d{i}")
            op = L().Operator(dd.actions[c[0]], dd, list(c[1]), pp.objects)
            if kind == "invalid" and ops.chance(1, 2):
                # history with short-lived states: the operator first answers a query about a temporary state in which
                # the action IS applicable; the temporary is released and the inapplicable state is a fresh object
                # created afterwards (anything the operator remembered about the temporary must not leak into this call)
                S_app = C.force_applicable(cur, W.action(c[0]), c[1], W)
                try:
                    if interp.applicable(S_app, W.action(c[0]), c[1], W.D, W.objs):
                        src = C.lib_world(ctx, W, S_app, tag=f"-t{i}")[2]
                        c2 = st.copy()
                        preds, fl = c2.state_predicates, c2.state_fluents
                        del c2
                        tmp = src.copy()
                        op.is_applicable(tmp)
                        del tmp
                        st = L().State(preds, fl, False)  # the next allocation of that size: re-uses tmp's address
                        ctx.probes["operator_queried_on_released_temporary"] += 1
                except Exception:
                    pass
            if kind == "invalid" and ops.chance(1, 3):
                # the same operator answers a query on a state object in which the action is applicable; the caller
                # then edits THAT object in place into the state of the plan (where it is not) and applies strictly
                from .c03 import edit_in_place
                S_app = C.force_applicable(cur, W.action(c[0]), c[1], W)
                try:
                    if interp.applicable(S_app, W.action(c[0]), c[1], W.D, W.objs) and set(S_app[1]) == set(cur[1]):
                        dd2, pp2, st2 = C.lib_world(ctx, W, S_app, tag=f"-e{i}")
                        op2 = L().Operator(dd2.actions[c[0]], dd2, list(c[1]), pp2.objects)
                        if op2.is_applicable(st2):
                            edit_in_place(dd2, st2, S_app, cur)
                            direct(ctx, op2, st2, kind, want, c)
                            ctx.probes["query_edit_in_place_apply"] += 1
                except Violation:
                    raise
                except Exception:
                    pass
            direct(ctx, op, st, kind, want, c)
            if kind == "valid" and not isinstance(W, C.FixtureWorld) and ops.chance(1, 3):
                # history: an object is added in place to the table the operator was given; the used operator is applied
                # again and must produce the successor over the objects as they are NOW
                types = [ty for ty in W.D["types"] if ty not in W.D.get("implicit_types", ())]
                ty = ops.pick(types) if types else None
                objs2 = {**W.objs, "znew": ty}
                act = W.action(c[0])
                try:
                    grown = ty is not None and interp.applicable(cur, act, c[1], W.D, objs2)
                    want2 = interp.successor(cur, act, c[1], W.D, objs2)[0] if grown else None
                except (interp.Inconsistent, interp.Undefined):
                    grown = False
                if grown:
                    from pddl_plus_parser.models import PDDLObject
                    pp.objects["znew"] = PDDLObject(name="znew", type=dd.types[ty])
                    site2 = "Operator.apply (used operator, an object was added to problem.objects)"
                    try:
                        r2 = op.apply(C.lib_world(ctx, W, cur, tag=f"-g{i}")[2])
                    except Exception as e:
                        raise Violation("C04/applicable-action-refused", site2, f"{C.fmt_call(*c)}: {type(e).__name__}: {e}")
                    got2 = C.abs_state(r2, site2, ID)
                    if not interp.state_eq(got2, want2):
                        raise Violation("C04/step-successor-differs", site2,
                                        f"{C.fmt_call(*c)} after znew - {ty} was added: {interp.state_diff(got2, want2)}")
                    ctx.probes["direct_after_object_added"] += 1
        cur = want if kind == "valid" else (cur if (kind == "invalid" and not allow) else None)
    ctx.steps += len(plan)


def pre_features(act):
    """does the action's precondition use a construct whose evaluation is a recorded finding?"""
    def has(f, k):
        if f[0] == k:
            return True
        if f[0] in ("and", "or"):
            return any(has(x, k) for x in f[1])
        if f[0] == "forall":
            return has(f[3], k)
        return False
    feats = {}
    if has(act["pre"], "or"):
        feats["or_pre"] = True
    if has(act["pre"], "forall"):
        feats["forall_pre"] = True
    if act.get("pre_single_literal"):
        feats["single_literal_pre"] = True
    return feats


def reuse_exporter(ctx, W, S, plan, exporter, allow, ops):
    site = "TrajectoryExporter.parse_plan (exporter re-used)"
    refused = [c for c, k, _ in plan if k == "invalid"]
    for round_ in range(2):
        S2 = S
        plan2 = []
        if round_ == 0 and refused:
            c = refused[-1]
            S2 = C.force_applicable(S, W.action(c[0]), c[1], W)
            try:
                if interp.applicable(S2, W.action(c[0]), c[1], W.D, W.objs):
                    nxt = interp.successor(S2, W.action(c[0]), c[1], W.D, W.objs)[0]
                    plan2.append((c, "valid", nxt))
            except (interp.Inconsistent, interp.Undefined):
                pass
            if not plan2:
                continue
        cur = plan2[-1][2] if plan2 else S2
        for _ in range(ops.draw(4)):
            r = C.pick_applicable_call(ctx, W, cur, ops, tries=5)
            if r is None:
                break
            S1, c, want, _ = r
            if not interp.state_eq(S1, cur):
                if plan2:
                    continue
                S2 = S1
            plan2.append((c, "valid", want))
            cur = want
        if not plan2:
            continue
        try:
            p2 = C.parse_problem(ctx, W.problem_text(S2), exporter.domain, f"problem-reuse{round_}.pddl")
            tr = exporter.parse_plan(p2, action_sequence=[C.fmt_call(*c) for c, _, _ in plan2])
        except Exception as e:
            raise Violation("C04/plan-rejected", site, f"{type(e).__name__}: {e}")
        check_triplets(ctx, W, S2, plan2, tr, allow, site)
        ctx.probes["exporter_reused"] += 1
        if round_ == 0:
            ctx.probes["refused_call_retried_when_applicable"] += 1
    # the caller revises the domain between two uses of the exporter (as a model-learning loop does): an action of
    # exporter.domain is replaced by a revised schema (here: the same action without effects); the next plan must follow
    # the domain as it is now
    if ops.chance(1, 2):
        import copy
        aname = ops.pick(sorted(W.D["actions"]))
        D2 = dict(W.D, actions={k: (dict(v, eff=[]) if k == aname else v) for k, v in W.D["actions"].items()})
        try:
            d_var = C.parse_domain(ctx, G.render_domain(D2), "domain-revised.pddl")
        except Exception:
            return
        exporter.domain.actions[aname] = d_var.actions[aname]
        W2 = copy.copy(W)
        W2.D = D2
        c = None
        for _ in range(6):
            cc = G.gen_call(ops, W2.D, W2.P, aname)
            if cc is None:
                break
            S2 = C.force_applicable(S, W2.action(aname), cc[1], W2)
            try:
                if interp.applicable(S2, W2.action(aname), cc[1], W2.D, W2.objs):
                    c = cc
                    break
            except interp.Undefined:
                pass
        if c is None:
            return
        plan3 = [(c, "valid", S2)]  # no effects: the successor is the pre-state
        try:
            p3 = C.parse_problem(ctx, W.problem_text(S2), exporter.domain, "problem-revised.pddl")
            tr = exporter.parse_plan(p3, action_sequence=[C.fmt_call(*c)])
        except Exception as e:
            raise Violation("C04/plan-rejected", site + " after the domain was revised", f"{type(e).__name__}: {e}")
        check_triplets(ctx, W2, S2, plan3, tr, allow, site + " after the domain was revised")
        ctx.probes["domain_revised_between_uses"] += 1
    elif ops.chance(1, 2):
        # the same, but the revision is made IN PLACE through the object API (an effect added to an action, a type given
        # another parent); the exporter, its domain object and everything that was computed from it before stay in use
        r = C.revise_model(ctx, W, exporter.domain, ops, kinds=("add_effect", "reparent_type", "reparent_type"))
        if not r:
            return
        W2, what = r
        cur, plan4 = S, []
        for _ in range(1 + ops.draw(4)):
            rr = C.pick_applicable_call(ctx, W2, cur, ops, tries=6)
            if rr is None:
                break
            S1, c, want, _ = rr
            if not interp.state_eq(S1, cur):
                if plan4:
                    continue
                S = S1
            plan4.append((c, "valid", want))
            cur = want
        if not plan4:
            return
        ctx.note(f"revision in place: {what}")
        try:
            p4 = C.parse_problem(ctx, W2.problem_text(S), exporter.domain, "problem-revised-in-place.pddl")
            tr = exporter.parse_plan(p4, action_sequence=[C.fmt_call(*c) for c, _, _ in plan4])
        except Exception as e:
            raise Violation("C04/plan-rejected", site + " after the domain was revised in place",
                            f"{what}: {type(e).__name__}: {e}")
        check_triplets(ctx, W2, S, plan4, tr, allow, site + " after the domain was revised in place")
        ctx.probes["domain_revised_in_place_between_uses"] += 1


def direct(ctx, op, st, kind, want, c):
    site = "Operator.apply"
    if kind == "invalid":
        try:
            op.apply(st)
        except ValueError:
            ctx.probes["direct_refused"] += 1
        except Exception as e:
            raise Violation("C04/refusal-wrong-exception", site, f"{C.fmt_call(*c)}: {type(e).__name__}: {e}")
        else:
            raise Violation("C04/inapplicable-action-applied", site,
                            f"{C.fmt_call(*c)} is inapplicable (reference) but apply() returned a state; "
                            f"pre={G.r_f(ctx.W.action(c[0])['pre'])}", pre_features(ctx.W.action(c[0])))
        for kw in ({"allow_inapplicable_actions": True}, {"skip_validation": True}):
            try:
                op.apply(st, **kw)
                ctx.probes["direct_allowed"] += 1
            except ValueError as e:
                raise Violation("C04/refused-although-allowed", site, f"{C.fmt_call(*c)} {kw}: {e}")
            except Exception:
                pass  # the successor of an inapplicable action is undefined; an evaluation error is tolerated
    else:
        flags = [{}, {"skip_validation": True}, {"allow_inapplicable_actions": True},
                 {"skip_validation": True, "allow_inapplicable_actions": True}][ctx.s("ops").draw(4)]
        if ctx.s("sched").draw(4) == 0:
            # the caller's first use of this operator object is interrupted at an arbitrary line (or, when the line
            # lies beyond the call, simply completes); the object is then used again
            first = [lambda: op.apply(st, **flags), lambda: op.is_applicable(st), op.ground][ctx.s("sched").draw(3)]
            if C.interrupted(ctx, first):
                ctx.probes["direct_after_interrupted_first_use"] += 1
        try:
            r = op.apply(st, **flags)  # a fresh, never grounded operator (unless interrupted above)
        except Exception as e:
            raise Violation("C04/applicable-action-refused", site, f"{C.fmt_call(*c)} {flags}: {type(e).__name__}: {e}")
        got = C.abs_state(r, site, ID)
        if not interp.state_eq(got, want):
            raise Violation("C04/step-successor-differs", site, f"{C.fmt_call(*c)}: {interp.state_diff(got, want)}")


def check_triplets(ctx, W, S, plan, triplets, allow, site):
    if len(triplets) != len(plan):
        raise Violation("C04/triplet-count", site, f"{len(triplets)} triplets for {len(plan)} plan lines")
    if not triplets:
        return
    first = C.abs_state(triplets[0].previous_state, site, ID)
    if not interp.state_eq(first, S):
        raise Violation("C04/first-prestate-not-initial", site, interp.state_diff(first, S))
    cur = S  # reference state; None = undefined
    prev_post = None
    for i, ((c, kind, want), t) in enumerate(zip(plan, triplets)):
        pre = C.abs_state(t.previous_state, site, ID)
        post = C.abs_state(t.next_state, site, ID)
        if prev_post is not None and not interp.state_eq(pre, prev_post):
            raise Violation("C04/chain-broken", site,
                            f"step {i}: pre-state differs from the preceding post-state: {interp.state_diff(pre, prev_post)}")
        if sexpr.read_one(str(t.operator)) != [c[0]] + list(c[1]):
            raise Violation("C04/operator-differs", site, f"step {i}: {t.operator} != {C.fmt_call(*c)}")
        if cur is not None:
            if not interp.state_eq(pre, cur):
                raise Violation("C04/prestate-differs", site, f"step {i}: {interp.state_diff(pre, cur)}")
            if kind == "valid":
                if not interp.state_eq(post, want):
                    ctx.note(f"step {i} {C.fmt_call(*c)}: eff={[G.r_e(e) for e in W.action(c[0])['eff']]}")
                    raise Violation("C04/step-successor-differs", site,
                                    f"step {i} {C.fmt_call(*c)}: {interp.state_diff(post, want)}")
                cur = want
            elif kind == "invalid":
                if not allow:
                    if not interp.state_eq(post, cur):
                        raise Violation("C04/invalid-step-changed-state", site,
                                        f"step {i} {C.fmt_call(*c)} is inapplicable and not allowed, but: "
                                        f"{interp.state_diff(post, cur)}; pre={G.r_f(W.action(c[0])['pre'])}",
                                        pre_features(W.action(c[0])))
                else:
                    cur = None
        prev_post = post
        ctx.log("step", i, kind, sorted(post[0]), sorted(post[1].items()))
