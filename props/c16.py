"""C16 - a joint action acts like its members applied one after another, in any order.

Simulation dimension: schedule = the order in which the members are presented (every permutation for <= 3 members),
nop placement, S1 hash schedule.  Fault: an inapplicable member injected.  Oracle: every serial order of the members in
the reference interpreter."""
import itertools

from sim import fs
from sim.engine import Violation, Skip
from ref import interp, sexpr, pddl_reader
from gen import pddl as G
from . import common as C
from .common import L

ID = "C16"
RUNS = {"quick": 16_000, "thorough": 320_000}
BUDGET_S = {"quick": 120, "thorough": 800}
CHUNK = 150
RULE = ("each run draws a multi-agent (domain, problem), a state and 1-4 calls by distinct agents that the reference finds "
        "serialisable as a set in that state, pads them with nops at tape-chosen slots and presents them in every member "
        "order (all permutations for <= 3 members, 6 drawn ones for 4) to apply_actions and to "
        "create_multi_agent_triplet/parse_plan/export; plus the same joint action with one inapplicable member injected, "
        "with and without allow_inapplicable_actions; non-trivial = >= 2 non-nop members of which one changes the state; "
        "distinct = distinct history digests")
ASSUMPTIONS = ["non-interference = serialisability in the reference interpreter (every member order executable step by step, "
               "all orders reach one state)", "with allow_inapplicable_actions only 'no refusal' is demanded"]
REAL_VS_STUB = {"real": ["multi_agent.common.apply_actions, MultiAgentTrajectoryExporter.create_multi_agent_triplet/"
                         "parse_plan/export, Operator, parsers"], "stub": ["__hash__ seam"]}
TECHNIQUE = "deterministic simulation: seeded member orders / nop placements / injected inapplicable member / plan text layouts / growing world / >1000-step joint plans vs every serial order in a reference interpreter; strict re-reading of exported files"
DESIGN_REF = "DESIGN.md §5 C16"
LEVEL_TEXT = ("seeded exploration: each generated joint action is presented in every member order and nop placement and "
              "compared with the reference's sequential application; refusal guard checked with an injected inapplicable "
              "member; sampling of inputs, exhaustive over member orders for <= 3 members")
LEVEL_NOTE = "trusts the reference interpreter and its notion of non-interference (serialisability)"


def apply_actions(d, s, lst, problem_objects=None, **kw):
    """call the library's apply_actions; the problem's objects are handed over when the entry point accepts them"""
    import inspect
    from pddl_plus_parser.multi_agent.common import apply_actions as _aa
    if "problem_objects" in inspect.signature(_aa).parameters:
        kw["problem_objects"] = problem_objects
    return _aa(d, s, lst, **kw)


def agent_of(c, agents):
    for a in c[1]:
        if a in agents:
            return a
    return None


def pick_members(ctx, W, S, ops, nmax):
    """-> list of calls (aname, args) by distinct agents, serialisable as a set in S"""
    agents = [o for o, ty in W.P["objects"].items() if ty == "agent"]
    members = []
    used = set()
    for _ in range(12):
        if len(members) >= nmax:
            break
        c = G.gen_call(ops, W.D, W.P)
        if c is None or agent_of(c, agents) is None or agent_of(c, agents) in used:
            continue
        act = W.action(c[0])
        try:
            if not interp.applicable(S, act, c[1], W.D, W.objs):
                continue
            interp.successor(S, act, c[1], W.D, W.objs)
        except (interp.Inconsistent, interp.Undefined):
            continue
        cand = members + [c]
        ok, final, why = interp.serialisable(S, [(W.action(a), args) for a, args in cand], W.D, W.objs)
        if ok:
            members = cand
            used.add(agent_of(c, agents))
        else:
            ctx.probes["interfering_candidate_rejected"] += 1
    return members


def joint_string(slots):
    return "[" + ",".join("(nop )" if c is None else C.fmt_call(*c) for c in slots) + "]"


def run(ctx):
    feat = C.draw_features(ctx)
    feat["max_params"] = 2
    feat["agentless_action"] = ctx.s("cfg").draw(3) == 0
    nag = 1 + ctx.s("cfg").draw(4)
    W = C.World(ctx, feat, multi_agent=True, agents=nag)
    ops = ctx.s("ops")
    S, _ = C.ref_walk(ctx, W, ops.draw(3))
    # make a few preconditions true so that several agents can act
    for _ in range(3):
        c = G.gen_call(ops, W.D, W.P)
        if c:
            S = C.force_applicable(S, W.action(c[0]), c[1], W)
    members = pick_members(ctx, W, S, ops, 1 + ops.draw(min(4, nag)))
    agents = [o for o, ty in W.P["objects"].items() if ty == "agent"]
    try:
        d, p, s0 = C.lib_world(ctx, W, S)
    except Exception as e:
        raise Violation("C16/generated-input-rejected", "DomainParser/ProblemParser", f"{type(e).__name__}: {e}")
    ma = L().models  # noqa
    from pddl_plus_parser.multi_agent.common import apply_actions as _aa
    from pddl_plus_parser.multi_agent import MultiAgentTrajectoryExporter
    from pddl_plus_parser.models import ActionCall
    ok, want, why = interp.serialisable(S, [(W.action(a), args) for a, args in members], W.D, W.objs)
    if not ok:
        raise RuntimeError(f"harness: generated members are not serialisable: {why}")
    ctx.log("input", W.dom_text_plain, sorted(S[0]), sorted(S[1].items()), tuple(map(str, members)))
    ctx.nontrivial = len(members) >= 2 and not interp.state_eq(S, want)
    ctx.probes[f"members_{len(members)}"] += 1
    ctx.sample = {"members": [C.fmt_call(*m) for m in members], "state_facts": sorted(S[0])[:10],
                  "effects": {m[0]: [G.r_e(e) for e in W.action(m[0])["eff"]] for m in members}}
    if any(e[0] == "forall" for m in members for e in W.action(m[0])["eff"]):
        ctx.probes["member_with_forall_effect"] += 1

    # ---- every member order, nops at tape-chosen positions
    perms = list(itertools.permutations(range(len(members))))
    if len(perms) > 6:
        perms = [perms[0]] + [ops.pick(perms) for _ in range(5)]
    exporter = MultiAgentTrajectoryExporter(d)
    for pi, perm in enumerate(perms):
        order = [members[i] for i in perm]
        calls = [ActionCall(name=a, grounded_parameters=list(args)) for a, args in order]
        # nop padding inside the list handed to apply_actions
        padded = list(calls)
        for _ in range(ops.draw(3)):
            padded.insert(ops.draw(len(padded) + 1), ActionCall(name="nop", grounded_parameters=[]))
        site = "apply_actions"
        for variant, lst in (("plain", calls), ("nop-padded", padded)):
            if variant == "nop-padded" and len(lst) == len(calls):
                continue
            if not lst:
                continue
            if all(c.name == "nop" for c in lst) and len(lst) == 1:
                continue  # a single nop is not an action of the domain; the exporter never passes it on
            try:
                r = apply_actions(d, s0, lst, problem_objects=p.objects)
            except Exception as e:
                raise Violation("C16/joint-action-raised", site,
                                f"{variant} {[str(c) for c in lst]}: {type(e).__name__}: {e}")
            got = C.abs_state(r, site, ID)
            if not interp.state_eq(got, want):
                ctx.note(f"members {[C.fmt_call(*m) for m in order]} effects "
                         f"{ {m[0]: [G.r_e(e) for e in W.action(m[0])['eff']] for m in order} }")
                raise Violation("C16/joint-result-differs", site,
                                f"{variant} order {[str(c) for c in lst]}: {interp.state_diff(got, want)}",
                                {"forall": any(e[0] == "forall" for m in members for e in W.action(m[0])["eff"])})
            # the state passed in is not the subject here (C07), but the result must not alias its value
        # via the exporter: slots per agent
        slots = [None] * len(agents)
        for m in order:
            slots[agents.index(agent_of(m, agents))] = m
        js = joint_string(slots)
        try:
            t = exporter.create_multi_agent_triplet(s0, js, p.objects)
        except Exception as e:
            raise Violation("C16/joint-action-raised", "create_multi_agent_triplet", f"{js}: {type(e).__name__}: {e}")
        got = C.abs_state(t.next_state, "create_multi_agent_triplet", ID)
        if not interp.state_eq(got, want):
            raise Violation("C16/joint-result-differs", "create_multi_agent_triplet",
                            f"{js}: {interp.state_diff(got, want)}",
                            {"forall": any(e[0] == "forall" for m in members for e in W.action(m[0])["eff"])})
        ctx.log("order", pi, perm, "ok")
    # ---- the same ground call listed twice (an agent given only by its slot): applied twice, like any two members
    if members and ops.chance(1, 3):
        m = ops.pick(members)
        ok2, want2, _ = interp.serialisable(S, [(W.action(m[0]), m[1])] * 2, W.D, W.objs)
        if ok2 and not interp.too_large(want2):
            twice = [ActionCall(name=m[0], grounded_parameters=list(m[1])) for _ in range(2)]
            try:
                r = apply_actions(d, s0, twice, problem_objects=p.objects)
                got = C.abs_state(r, "apply_actions", ID)
            except Exception as e:
                raise Violation("C16/joint-action-raised", "apply_actions", f"{[str(c) for c in twice]}: {type(e).__name__}: {e}")
            if not interp.state_eq(got, want2):
                raise Violation("C16/joint-result-differs", "apply_actions",
                                f"the same call twice {[str(c) for c in twice]}: {interp.state_diff(got, want2)}",
                                {"duplicate_member": True})
            ctx.probes["duplicate_member_checked"] += 1
            if not interp.state_eq(want2, want):
                ctx.probes["duplicate_member_not_idempotent"] += 1
    # ---- nop-only joint action: unchanged
    js = joint_string([None] * len(agents))
    try:
        t = exporter.create_multi_agent_triplet(s0, js, p.objects)
        got = C.abs_state(t.next_state, "create_multi_agent_triplet", ID)
    except Exception as e:
        raise Violation("C16/nop-joint-action-raised", "create_multi_agent_triplet", f"{js}: {type(e).__name__}: {e}")
    if not interp.state_eq(got, S):
        raise Violation("C16/nop-changed-state", "create_multi_agent_triplet", interp.state_diff(got, S))
    # ---- exported trajectory of a 2-3 step joint plan: one step per joint action, chained
    if members:
        check_joint_plan(ctx, W, S, members, agents, d, p, ops)
    # ---- two caller threads share one exporter (and the domain): each applies a joint action to its own state; both
    # must get what they get alone
    if members and ctx.s("cfg").chance(1, 4):
        threaded(ctx, W, S, members, agents, d, p, s0, ops)
    # ---- inapplicable member injected
    inject(ctx, W, S, members, agents, d, p, s0, ops)
    # ---- a member without any argument (an action of the domain that has no parameters) in an idle agent's slot: it is
    # a member like any other - checked for applicability, applied, exported
    agentless = [a for a, v in W.D["actions"].items() if not v["params"]]
    idle = [i for i, ag in enumerate(agents) if ag not in {agent_of(m, agents) for m in members}]
    if agentless and idle:
        c0 = (agentless[0], [])
        cand = members + [c0]
        try:
            ok0 = interp.applicable(S, W.action(c0[0]), [], W.D, W.objs)
            ok0 = ok0 and interp.serialisable(S, [(W.action(a), args) for a, args in cand], W.D, W.objs)[0]
        except (interp.Inconsistent, interp.Undefined):
            ok0 = False
        if ok0:
            want0 = interp.serialisable(S, [(W.action(a), args) for a, args in cand], W.D, W.objs)[1]
            slots = [None] * len(agents)
            for m in members:
                slots[agents.index(agent_of(m, agents))] = m
            slots[idle[ops.draw(len(idle))]] = c0
            js0 = joint_string(slots)
            try:
                t0 = exporter.create_multi_agent_triplet(s0, js0, p.objects)
            except Exception as e:
                raise Violation("C16/joint-action-raised", "create_multi_agent_triplet", f"{js0}: {type(e).__name__}: {e}")
            got0 = C.abs_state(t0.next_state, "create_multi_agent_triplet", ID)
            if not interp.state_eq(got0, want0):
                raise Violation("C16/joint-result-differs", "create_multi_agent_triplet",
                                f"{js0} (a member without arguments): {interp.state_diff(got0, want0)}", {"agentless": True})
            ctx.probes["agentless_member_checked"] += 1
            if not interp.state_eq(want0, want):
                ctx.probes["agentless_member_changes_state"] += 1
    # ---- history: the problem gains an object between two calls on the same exporter (same objects dict, grown in
    # place); quantified effects and conditions of the members range over the objects as they are NOW
    if members and ops.chance(1, 3):
        world_grows(ctx, W, S, members, agents, d, p, s0, exporter, ops)
    ctx.steps += len(perms)


def world_grows(ctx, W, S, members, agents, d, p, s0, exporter, ops):
    from pddl_plus_parser.models import PDDLObject, ActionCall
    types = [ty for ty in W.D["types"] if ty != "agent"]
    if not types:
        return
    ty = ops.pick(types)
    new = "znew"
    objs2 = {**W.objs, new: ty}
    ok2, want2, _ = interp.serialisable(S, [(W.action(a), args) for a, args in members], W.D, objs2)
    if not ok2:
        ctx.probes["grown_world_outside_quantifier"] += 1  # e.g. a forall effect now reads an unset fluent of the object
        return
    p.objects[new] = PDDLObject(name=new, type=d.types[ty])
    slots = [None] * len(agents)
    for m in members:
        slots[agents.index(agent_of(m, agents))] = m
    js = joint_string(slots)
    for site, call in (("create_multi_agent_triplet (objects grown in place)",
                        lambda: exporter.create_multi_agent_triplet(s0, js, p.objects).next_state),
                       ("apply_actions (objects grown in place)",
                        lambda: apply_actions(d, s0, [ActionCall(name=a, grounded_parameters=list(args))
                                                      for a, args in members], problem_objects=p.objects))):
        try:
            got = C.abs_state(call(), site, ID)
        except Exception as e:
            raise Violation("C16/joint-action-raised", site, f"{js}: {type(e).__name__}: {e}")
        if not interp.state_eq(got, want2):
            raise Violation("C16/joint-result-differs", site,
                            f"{js} after object {new} - {ty} was added: {interp.state_diff(got, want2)}",
                            {"forall": True})
    ctx.probes["grown_world_checked"] += 1
    if not interp.state_eq(want2, interp.serialisable(S, [(W.action(a), args) for a, args in members], W.D, W.objs)[1]):
        ctx.probes["grown_world_changes_result"] += 1


def threaded(ctx, W, S, members, agents, d, p, s0, ops):
    from pddl_plus_parser.multi_agent import MultiAgentTrajectoryExporter
    shared = MultiAgentTrajectoryExporter(d)
    # second state: same universe, fluents shifted (so that a value leaking from the other thread is visible)
    S2 = (S[0], {k: v + 7.0 for k, v in S[1].items()})
    jobs = []
    for St in (S, S2):
        ok, want, _ = interp.serialisable(St, [(W.action(a), args) for a, args in members], W.D, W.objs)
        if not ok:
            return
        slots = [None] * len(agents)
        for m in members:
            slots[agents.index(agent_of(m, agents))] = m
        st = C.lib_world(ctx, W, St, tag=f"-thr{len(jobs)}")[2]
        jobs.append((joint_string(slots), st, want))

    def mk(js, st):
        return lambda: C.abs_state(shared.create_multi_agent_triplet(st, js, p.objects).next_state,
                                   "create_multi_agent_triplet (shared exporter, 2 threads)", ID)

    results, switches = C.concurrent(ctx, [mk(js, st) for js, st, _ in jobs])
    for (js, st, want), r in zip(jobs, results):
        if r[0] != "ok":
            raise Violation("C16/joint-action-raised", "create_multi_agent_triplet (shared exporter, 2 threads)",
                            f"{js}: {r[1]}")
        if not interp.state_eq(r[1], want):
            raise Violation("C16/joint-result-differs", "create_multi_agent_triplet (shared exporter, 2 threads)",
                            f"{js}: {interp.state_diff(r[1], want)}", {"threads": 2})
    ctx.probes["threaded_checked"] += 1
    if switches:
        ctx.probes["threaded_with_switches"] += 1


def check_joint_plan(ctx, W, S, members, agents, d, p, ops):
    from pddl_plus_parser.multi_agent import MultiAgentTrajectoryExporter
    exporter = MultiAgentTrajectoryExporter(d)
    plan = []
    cur = S
    steps_ref = [S]
    group = members
    for step in range(1 + ops.draw(3)):
        if ops.chance(1, 4):
            # a step in which every agent idles: one trajectory step, state unchanged
            plan.append([None] * len(agents))
            steps_ref.append(cur)
            ctx.probes["nop_only_step_in_plan"] += 1
        if step:
            group = pick_members(ctx, W, cur, ops, 1 + ops.draw(3))
            if not group:
                break
        slots = [None] * len(agents)
        for m in group:
            slots[agents.index(agent_of(m, agents))] = m
        ok, nxt, why = interp.serialisable(cur, [(W.action(a), args) for a, args in group], W.D, W.objs)
        if not ok:
            raise RuntimeError("harness: generated joint plan step is not serialisable")
        plan.append(slots)
        cur = nxt
        steps_ref.append(cur)
    long_plan = ops.draw(800) == 0
    if long_plan:
        # a long joint plan (more than a thousand joint actions): the steps above, then steps in which every agent idles
        for _ in range(1001 + ops.draw(200) - len(plan)):
            plan.append([None] * len(agents))
            steps_ref.append(cur)
        ctx.probes["long_joint_plan"] += 1
    lines = [joint_string(s) for s in plan]
    # layout of the plan text: the member calls of a line with or without the enclosing brackets, separated by a comma,
    # a blank or both; the file's last line with or without a line terminator
    style = (ops.draw(2), [",", " ", ", "][ops.draw(3)], ops.draw(2))
    if style[0] or style[1] != ",":
        lines = [("" if style[0] else "[") + style[1].join("(nop )" if c is None else C.fmt_call(*c) for c in s)
                 + ("" if style[0] else "]") for s in plan]
        ctx.probes["joint_plan_other_layout"] += 1
    site = "MultiAgentTrajectoryExporter.parse_plan"
    try:
        if ops.chance(1, 2):
            path = C.put(ctx, "joint.plan", "\n".join(lines) + ("\n" if style[2] else ""))
            triplets = exporter.parse_plan(p, plan_path=path)
        else:
            triplets = exporter.parse_plan(p, action_sequence=lines)
    except Exception as e:
        raise Violation("C16/joint-plan-rejected", site, f"{type(e).__name__}: {e}; {lines}")
    if len(triplets) != len(plan):
        raise Violation("C16/joint-triplet-count", site, f"{len(triplets)} triplets for {len(plan)} joint actions")
    prev = None
    for i, t in enumerate(triplets):
        pre = C.abs_state(t.previous_state, site, ID)
        post = C.abs_state(t.next_state, site, ID)
        if not interp.state_eq(pre, steps_ref[i]):
            raise Violation("C16/joint-chain-broken", site, f"step {i} pre-state: {interp.state_diff(pre, steps_ref[i])}")
        if not interp.state_eq(post, steps_ref[i + 1]):
            raise Violation("C16/joint-result-differs", site, f"step {i} {lines[i]}: "
                                                               f"{interp.state_diff(post, steps_ref[i + 1])}")
    try:
        text = "".join(exporter.export(triplets))
        states, steps = pddl_reader.read_trajectory_tree(sexpr.read_one(text))
    except Exception as e:
        raise Violation("C16/joint-trajectory-unreadable", "MultiAgentTrajectoryExporter.export",
                        f"{type(e).__name__}: {e}")
    if len(steps) != len(plan) or len(states) != len(plan) + 1:
        raise Violation("C16/joint-trajectory-shape", "MultiAgentTrajectoryExporter.export",
                        f"{len(states)} states / {len(steps)} steps for {len(plan)} joint actions")
    for i, slots in enumerate(plan):
        want = [("nop", ()) if c is None else (c[0], tuple(c[1])) for c in slots]
        if steps[i] != want:
            raise Violation("C16/joint-trajectory-step-differs", "MultiAgentTrajectoryExporter.export",
                            f"step {i}: {steps[i]} != {want}")
    for i, a in enumerate(states):
        if not interp.state_eq(a, steps_ref[i]):
            raise Violation("C16/joint-trajectory-state-differs", "MultiAgentTrajectoryExporter.export",
                            f"state {i}: {interp.state_diff(a, steps_ref[i])}")
    ctx.probes["joint_plan_checked"] += 1
    ctx.probes[f"joint_plan_len_{len(plan)}"] += 1
    # ---- the trajectory file: the whole trajectory is written, then (history) a shorter one over the same path; each
    # time the file holds exactly one step per joint action of what was exported last
    if long_plan or ops.chance(1, 2):
        out = ctx.rundir / "joint.trajectory"
        for label, trs in (("whole", triplets), ("shorter, over the same path", triplets[:1])):
            if label != "whole" and len(triplets) < 2:
                break
            try:
                exporter.export_to_file(trs, out)
                text = fs.read_real_bytes(out).decode("utf-8")
                states, steps = pddl_reader.read_trajectory_tree(sexpr.read_one(text))
            except Exception as e:
                raise Violation("C16/joint-trajectory-unreadable", f"export_to_file ({label})",
                                f"{type(e).__name__}: {e}")
            if len(steps) != len(trs) or len(states) != len(trs) + 1:
                raise Violation("C16/joint-trajectory-shape", f"export_to_file ({label})",
                                f"{len(states)} states / {len(steps)} steps in the file for {len(trs)} joint actions")
            for i in range(len(trs) + 1):
                if not interp.state_eq(states[i], steps_ref[i]):
                    raise Violation("C16/joint-trajectory-state-differs", f"export_to_file ({label})",
                                    f"state {i}: {interp.state_diff(states[i], steps_ref[i])}")
            ctx.probes["joint_trajectory_file_checked"] += 1


def inject(ctx, W, S, members, agents, d, p, s0, ops):
    from pddl_plus_parser.multi_agent.common import apply_actions as _aa
    from pddl_plus_parser.models import ActionCall
    used = {agent_of(m, agents) for m in members}
    bad = None
    for _ in range(10):
        c = G.gen_call(ops, W.D, W.P)
        if c is None or agent_of(c, agents) is None or agent_of(c, agents) in used:
            continue
        try:
            if not interp.applicable(S, W.action(c[0]), c[1], W.D, W.objs):
                bad = c
                break
        except interp.Undefined:
            pass
    if bad is None:
        return
    lst = list(members)
    lst.insert(ops.draw(len(lst) + 1), bad)
    calls = [ActionCall(name=a, grounded_parameters=list(args)) for a, args in lst]
    ctx.faults["inapplicable_member_injected"] += 1
    ctx.probes[f"inject_into_{len(members)}"] += 1
    # the same refusal through an exporter with a history: a lenient parse_plan call that failed on its plan file
    from pddl_plus_parser.multi_agent import MultiAgentTrajectoryExporter
    import errno
    exp = MultiAgentTrajectoryExporter(d)
    slots_b = [None] * len(agents)
    for m in lst:
        slots_b[agents.index(agent_of(m, agents))] = m
    js_bad = joint_string(slots_b)
    if ops.chance(1, 2):
        planf = C.put(ctx, "lenient.plan", js_bad + "\n")
        fs.arm_read(["open", "read"][ops.draw(2)], OSError(errno.EIO, "sim"))
        try:
            exp.parse_plan(p, plan_path=planf, allow_inapplicable_actions=True)
        except OSError:
            ctx.faults["lenient_plan_read_fault"] += 1
        except Exception:
            pass
        fs.disarm()
    elif ops.chance(1, 2):
        try:
            exp.parse_plan(p, action_sequence=[js_bad], allow_inapplicable_actions=True)
            ctx.probes["lenient_plan_before_strict"] += 1
        except Exception:
            pass
    try:
        exp.create_multi_agent_triplet(s0, js_bad, p.objects)
    except ValueError:
        ctx.probes["joint_refused_by_exporter"] += 1
    except Exception as e:
        raise Violation("C16/refusal-wrong-exception", "create_multi_agent_triplet",
                        f"{js_bad}: {type(e).__name__}: {e}")
    else:
        raise Violation("C16/inapplicable-member-applied", "create_multi_agent_triplet",
                        f"member {C.fmt_call(*bad)} is inapplicable (reference) but {js_bad} was applied by an exporter "
                        f"whose earlier lenient call had ended", {"n_members": len(calls)})
    try:
        apply_actions(d, s0, calls, problem_objects=p.objects)
    except ValueError:
        ctx.probes["joint_refused"] += 1
    except Exception as e:
        raise Violation("C16/refusal-wrong-exception", "apply_actions",
                        f"{[str(c) for c in calls]}: {type(e).__name__}: {e}")
    else:
        raise Violation("C16/inapplicable-member-applied", "apply_actions",
                        f"member {C.fmt_call(*bad)} is inapplicable (reference) but the joint action "
                        f"{[str(c) for c in calls]} was applied", {"n_members": len(calls)})
    try:
        apply_actions(d, s0, calls, allow_inapplicable_actions=True, problem_objects=p.objects)
        ctx.probes["joint_allowed"] += 1
    except ValueError as e:
        raise Violation("C16/refused-although-allowed", "apply_actions", f"{[str(c) for c in calls]}: {e}")
    except Exception:
        pass
