"""C17 - combining agent domains/problems yields their union and disturbs nothing else.

Simulation dimension: S2 (the order in which glob discovers the per-agent files: tape-permuted, several orders per run),
S4 (history: unrelated typed/untyped domains parsed before and after, fresh Domain() objects), S1, S5 (unreadable / torn
agent file, failed or crashed combined export, retry).  Oracle: set-union model over the per-agent ASTs; structural
digests of bystander domains and of Domain().types."""
import errno

from sim import fs
from sim.engine import Violation, Skip
from ref import interp, sexpr, pddl_reader, walker
from gen import pddl as G
from . import common as C
from . import c08
from .common import L

ID = "C17"
CANARY_IS_VIOLATION = True
RUNS = {"quick": 9_000, "thorough": 180_000}
BUDGET_S = {"quick": 120, "thorough": 800}
CHUNK = 100
RULE = ("each run splits a generated domain and problem into 1-4 overlapping per-agent files (overlaps textually identical), "
        "combines them with locate_domains under 2-4 tape-drawn discovery orders (add_dummy_actions in {F,T}), exports the "
        "combination under a fault plan and re-parses it, combines and exports the problems, and checks bystander domains "
        "parsed before (typed and untyped), a fresh Domain() and a domain parsed afterwards; non-trivial = >= 2 agent "
        "files with a genuine overlap, or a fault fired; distinct = distinct history digests")
ASSUMPTIONS = ["union is by name, with signatures; overlapping declarations are textually identical in every file",
               "per-agent files declare parent types before children (declaration-order independence is C06's subject)"]
REAL_VS_STUB = {"real": ["MultiAgentDomainsConverter.locate_domains/export_combined_domain, "
                         "MultiAgentProblemsConverter.combine_problems/export_combined_problem, DomainParser, ProblemParser, "
                         "DomainExporter, ProblemExporter"],
                "stub": ["pathlib.Path.glob order (sorted then tape-permuted)", "__hash__ seam", "raw file sink / open seam"]}
TECHNIQUE = "deterministic simulation: seeded directory-discovery orders, call histories with bystander domains, unreadable/torn agent files, failed/crashed exports, same-size regeneration under a constant file clock, caller edits between two combinations; set-union reference model"
DESIGN_REF = "DESIGN.md §5 C17, §3.3"
LEVEL_TEXT = ("seeded exploration of (split x discovery order x history x fault plan); the combination is compared with a "
              "set-union model and bystanders are digested before and after; sampling, not proof")
LEVEL_NOTE = "trusts the walker and the union model; overlaps are generated consistent (same declaration in every file)"


def split(ops, W, nfiles):
    """-> list of per-file domain ASTs (sub-dicts of W.D) covering every item at least once"""
    D = W.D
    files = [{"name": D["name"], "types": {}, "constants": {}, "predicates": {}, "functions": {}, "actions": {}}
             for _ in range(nfiles)]

    def need_type(fi, t):
        chain = []
        while t != "object" and t in D["types"]:
            chain.append(t)
            t = D["types"][t]
        for x in reversed(chain):
            files[fi]["types"][x] = D["types"][x]

    def owners():
        o = {ops.draw(nfiles)}
        for i in range(nfiles):
            if ops.chance(1, 3):
                o.add(i)
        return sorted(o)

    for a, act in D["actions"].items():
        for fi in owners():
            files[fi]["actions"][a] = act
    for p in D["predicates"]:
        for fi in owners():
            files[fi]["predicates"][p] = D["predicates"][p]
    for fn in D["functions"]:
        for fi in owners():
            files[fi]["functions"][fn] = D["functions"][fn]
    for k in D["constants"]:
        for fi in owners():
            files[fi]["constants"][k] = D["constants"][k]
    for t in D["types"]:
        for fi in owners():
            need_type(fi, t)
    # closure: everything a file's actions mention must be declared in that file
    for fi, F in enumerate(files):
        for a, act in F["actions"].items():
            used_p, used_f, used_c, used_t = set(), set(), set(), set()
            collect(act, used_p, used_f, used_c, used_t, D)
            for p in used_p:
                F["predicates"][p] = D["predicates"][p]
            for fn in used_f:
                F["functions"][fn] = D["functions"][fn]
            for k in used_c:
                F["constants"][k] = D["constants"][k]
            for t in used_t:
                need_type(fi, t)
        for sig in list(F["predicates"].values()) + list(F["functions"].values()):
            for t in sig:
                need_type(fi, t)
        for t in F["constants"].values():
            need_type(fi, t)
        # keep declaration order of the source (parents first)
        F["types"] = {t: D["types"][t] for t in D["types"] if t in F["types"]}
        F["predicates"] = {p: D["predicates"][p] for p in D["predicates"] if p in F["predicates"]} or \
            {next(iter(D["predicates"])): D["predicates"][next(iter(D["predicates"]))]}
        for sig in F["predicates"].values():
            for t in sig:
                need_type(fi, t)
        F["types"] = {t: D["types"][t] for t in D["types"] if t in F["types"]}
    return files


def collect(act, P, F, K, T, D):
    def terms(args):
        for a in args:
            if a in D["constants"]:
                K.add(a)

    def expr(e):
        if isinstance(e, (int, float)):
            return
        if e[0] == "fn":
            F.add(e[1])
            terms(e[2])
        else:
            expr(e[1])
            expr(e[2])

    def form(f):
        k = f[0]
        if k in ("and", "or"):
            for x in f[1]:
                form(x)
        elif k == "atom":
            P.add(f[1])
            terms(f[2])
        elif k == "not":
            form(f[1])
        elif k in ("=", "neq"):
            terms([f[1], f[2]])
        elif k == "cmp":
            expr(f[2])
            expr(f[3])
        elif k == "forall":
            T.add(f[2])
            form(f[3])

    def eff(e):
        k = e[0]
        if k in ("add", "del"):
            form(e[1])
        elif k == "num":
            expr(e[2])
            expr(e[3])
        elif k == "when":
            form(e[1])
            for x in e[2]:
                eff(x)
        elif k == "forall":
            T.add(e[2])
            eff(e[3])

    for _, t in act["params"]:
        T.add(t)
    form(act["pre"])
    for e in act["eff"]:
        eff(e)


def split_problem(ops, W, nfiles):
    P = W.P
    files = [{"name": P["name"], "objects": {}, "facts": set(), "fluents": {}, "goal": [], "goal_num": []}
             for _ in range(nfiles)]

    def owners():
        o = {ops.draw(nfiles)}
        for i in range(nfiles):
            if ops.chance(1, 3):
                o.add(i)
        return sorted(o)

    def need(fi, args):
        for a in args:
            if a in P["objects"]:
                files[fi]["objects"][a] = P["objects"][a]

    for o in P["objects"]:
        for fi in owners():
            files[fi]["objects"][o] = P["objects"][o]
    for f in sorted(P["facts"]):
        for fi in owners():
            files[fi]["facts"].add(f)
            need(fi, f[1:])
    for k, v in P["fluents"].items():
        for fi in owners():
            files[fi]["fluents"][k] = v
            need(fi, k[1:])
    for g in P["goal"]:
        for fi in owners():
            files[fi]["goal"].append(g)
            need(fi, g[1:])
    for g in P.get("goal_num", []):
        # a numeric goal is put into exactly one agent file unless the run is in the shared-numeric-goal profile
        fis = owners() if P.get("share_numeric_goals") else [ops.draw(nfiles)]
        for fi in fis:
            files[fi]["goal_num"].append(g)
            need(fi, g[2][2])
    for F in files:
        # a file may state the same goal twice (the union still holds it once)
        if F["goal_num"] and ops.draw(3) == 0:
            F["goal_num"].append(F["goal_num"][ops.draw(len(F["goal_num"]))])
        if F["goal"] and ops.draw(4) == 0:
            F["goal"].append(F["goal"][ops.draw(len(F["goal"]))])
    for F in files:
        F["objects"] = {o: P["objects"][o] for o in P["objects"] if o in F["objects"]}
    return files


def union_vocab(files):
    u = {"types": {}, "constants": {}, "predicates": {}, "functions": {}, "actions": {}}
    for F in files:
        for k in u:
            u[k].update(F[k])
    return u


def digest_domain(d):
    w = walker.w_domain(d)
    return repr((sorted(w["types"].items()), sorted(w["type_chains"].items()), sorted(w["constants"].items()),
                 sorted(w["predicates"].items()), sorted(w["predicate_params"].items()), sorted(w["functions"].items()),
                 [(a, G.canon_action(v)) for a, v in sorted(w["actions"].items())], w["name"], w["requirements"]))


UNTYPED = """(define (domain blocks-untyped)
(:requirements :strips)
(:predicates (on ?x ?y) (clear ?x) (holding ?x) (handempty))
(:action pick :parameters (?x) :precondition (and (clear ?x) (handempty)) :effect (and (holding ?x) (not (clear ?x)) (not (handempty))))
)
"""
TYPED = """(define (domain bystander)
(:requirements :typing)
(:types place vehicle - object truck - vehicle)
(:constants depot - place)
(:predicates (at ?v - vehicle ?p - place) (empty ?t - truck))
(:action drive :parameters (?t - truck ?a - place ?b - place) :precondition (and (at ?t ?a) (not (= ?a ?b))) :effect (and (at ?t ?b) (not (at ?t ?a))))
)
"""


# a bystander with numeric terms, among them terms that repeat a parameter ((distance ?a ?a)): legal PDDL that the
# library's object model represents only approximately - whatever it makes of it must stay inside that domain
TYPED_NUMERIC = """(define (domain bystander)
(:requirements :typing :numeric-fluents)
(:types place vehicle - object truck - vehicle)
(:constants depot - place)
(:predicates (at ?v - vehicle ?p - place) (empty ?t - truck) (link ?a - place ?b - place))
(:functions (distance ?a - place ?b - place) (fuel ?t - truck) (total))
(:action drive :parameters (?t - truck ?a - place ?b - place)
 :precondition (and (at ?t ?a) (not (= ?a ?b)) (>= (distance ?a ?a) 0) (>= (fuel ?t) (distance ?a ?b)) (link ?a ?a))
 :effect (and (at ?t ?b) (not (at ?t ?a)) (decrease (fuel ?t) (distance ?a ?b)) (increase (total) (distance ?b ?b))))
)
"""

_nth = {"n": None, "exc": None, "orig": None}


def arm_nth_read(n, exc):
    """the n-th (0-based) read-open under the scratch root from now on fails with exc (later agent files fail while
    earlier ones were merged already)"""
    import builtins
    import io
    _nth.update(n=n, exc=exc, orig=builtins.open)
    seam = builtins.open

    def opener(file, mode="r", *a, **kw):
        if fs._under_root(file) is not None and "w" not in mode:
            if _nth["n"] == 0:
                _nth["n"] = None
                fs.counters()["r_open_fault"] += 1
                raise exc
            if _nth["n"] is not None:
                _nth["n"] -= 1
        return seam(file, mode, *a, **kw)

    builtins.open = opener
    io.open = opener


def disarm_nth_read():
    import builtins
    import io
    if _nth["orig"] is not None:
        builtins.open = _nth["orig"]
        io.open = _nth["orig"]
        _nth["orig"] = None


def check_fresh_domain(ctx, site, when):
    fresh = L().Domain()
    if list(fresh.types) != ["object"] or fresh.constants or fresh.predicates or fresh.actions or fresh.functions:
        raise Violation("C17/fresh-domain-polluted", site,
                        f"{when}: Domain().types == {list(fresh.types)}, predicates={list(fresh.predicates)}")
    try:
        u = C.parse_domain(ctx, UNTYPED, f"untyped-{ctx.steps}.pddl")
    except Exception as e:
        raise Violation("C17/bystander-parse-failed", site, f"{when}: {type(e).__name__}: {e}")
    if sorted(u.types) != ["object"]:
        raise Violation("C17/later-domain-polluted", site,
                        f"{when}: an untyped domain parsed afterwards reports types {sorted(u.types)}")


SHIPPED_DIRS = ["multi_agent_problem", "blocks_ma_problem", "another_multi_agent_problem"]


def run_fixture(ctx, cfg, ops, f):
    """a multi-agent directory shipped with the repository, copied into the scratch tree: the combination must be the
    union of the reference readings of its files, for several discovery orders, and survive export / re-parse"""
    import glob as _glob
    import os
    from pddl_plus_parser.multi_agent import MultiAgentDomainsConverter, MultiAgentProblemsConverter
    name = SHIPPED_DIRS[cfg.draw(len(SHIPPED_DIRS))]
    src = os.path.join(os.environ.get("VERIF_REPO", "/repo"), "tests", "multi_agent_tests", name)
    ddir = ctx.dir("shipped")
    files, pfiles = [], []
    try:
        for path in sorted(_glob.glob(src + "/*.pddl")):
            with fs._real_open(path, "r", encoding="utf-8") as fh:
                txt = fh.read()
            fs.write_real(ddir / os.path.basename(path), txt)
            if os.path.basename(path).startswith("domain-"):
                files.append(pddl_reader.read_domain_text(txt))
        union = union_vocab(files)
        for path in sorted(_glob.glob(src + "/problem-*.pddl")):
            with fs._real_open(path, "r", encoding="utf-8") as fh:
                pfiles.append(pddl_reader.read_problem_text(fh.read(), union))
    except (pddl_reader.Unsupported, sexpr.Reject, KeyError, IndexError, ValueError):
        ctx.probes["fixture_unsupported"] += 1
        raise Skip()
    ctx.profile = "shipped-directory"
    ctx.probes["fixture_directory"] += 1
    ctx.log("fixture", name)
    ctx.nontrivial = True
    ctx.sample = {"shipped_directory": name, "agent_files": len(files)}

    class _W:
        D = {"name": files[0]["name"]}
    conv = MultiAgentDomainsConverter(ddir)
    first = None
    for o in range(3):
        if o:
            ctx.new_epoch()
        try:
            comb = conv.locate_domains()
        except Exception as e:
            raise Violation("C17/combine-raised", "locate_domains", f"{name}: {type(e).__name__}: {e}")
        w = walker.w_domain(comb)
        check_union(ctx, w, union, _W, False, f"{name}, discovery order #{o}")
        key = (c08.vocab(w), {a: G.canon_action(v) for a, v in w["actions"].items()})
        if first is None:
            first = key
        elif key != first:
            raise Violation("C17/order-dependent", "locate_domains", f"{name}: discovery order #{o} differs")
    out = ctx.dir("out")
    try:
        path = conv.export_combined_domain(output_folder=out)
        ctx.new_epoch()
        d2 = L().DomainParser(path).parse_domain()
    except Exception as e:
        raise Violation("C17/combined-export-rejected", "export_combined_domain -> DomainParser",
                        f"{name}: {type(e).__name__}: {e}")
    check_union(ctx, walker.w_domain(d2), union, _W, False, f"{name}, re-parsed combined export")
    # problems: union of objects, facts, fluents, goals
    P = {"objects": {}, "facts": set(), "fluents": {}, "goal": []}
    for pf in pfiles:
        P["objects"].update(pf["objects"])
        P["facts"] |= set(pf["facts"])
        P["fluents"].update(pf["fluents"])
        P["goal"] += [g for g in pf["goal"]]
        if pf["goal_num"]:
            ctx.probes["fixture_numeric_goals"] += 1

    class _WP:
        pass
    _WP.P = P
    try:
        cp = MultiAgentProblemsConverter(ddir, "problem").combine_problems(path)
    except Exception as e:
        raise Violation("C17/combine-problems-raised", "combine_problems", f"{name}: {type(e).__name__}: {e}")
    check_problem_union(ctx, cp, walker.w_problem(cp), _WP, f"{name}")
    ctx.steps += 4


def run(ctx):
    cfg = ctx.s("cfg")
    ops = ctx.s("ops")
    f = ctx.s("fs")
    if cfg.draw(150 if ctx.tier == "quick" else 40) == 0:
        return run_fixture(ctx, cfg, ops, f)
    feat = C.draw_features(ctx)
    feat["tiny_offsets"] = False  # the exporters print constants with 4 decimals (their stated precision)
    feat["max_actions"] = 2 + cfg.draw(3)
    feat["cond_numeric"] = False  # exporting conditions through the simplifying printers is C08's recorded finding
    W = C.World(ctx, feat, noise_level=0)
    nfiles = 1 + cfg.draw(4)
    dummy = cfg.chance(1, 3)
    files = split(ops, W, nfiles)
    union = union_vocab(files)
    overlap = nfiles >= 2 and any(sum(1 for F in files if a in F[k]) >= 2 for k in ("actions", "predicates", "types")
                                  for a in union[k])
    ddir = ctx.dir("agents")
    texts = []
    agent_ids = ops.shuffle(["0", "1", "a", "rover-1", "rover-2", "truck-a", "truck-b", "x_1", "a1", "a10"])[:nfiles]
    ctx.agent_ids = agent_ids
    privates = []
    for i, F in enumerate(files):
        private = None
        if len(F["predicates"]) >= 2 and ops.draw(3) == 0:
            # MA-PDDL: some predicates of the agent's file are declared inside a (:private ...) group, which may stand
            # before, between or after the other declarations
            names_ = sorted(F["predicates"])
            private = ([n for n in names_ if ops.draw(2)], ops.draw(len(names_) + 1))
            ctx.probes["agent_file_with_private_group"] += 1
        privates.append(private)
        txt = G.render_domain(F, private=private)
        texts.append(txt)
        fs.write_real(ddir / f"domain-{agent_ids[i]}.pddl", txt)
    fs.write_real(ddir / "notes.txt", "not a domain")
    fs.write_real(ddir / "domain_other.pddl", "(this file does not match the pattern")
    # leftovers an editor or a merge tool puts next to the agent files: they are not agent files
    stale = ("(define (domain " + W.D["name"] + ") (:requirements :typing) (:types stale-type - object) "
             "(:predicates (stale-pred ?s - stale-type)) (:action stale-action :parameters (?s - stale-type) "
             ":precondition (and ) :effect (and (stale-pred ?s))))")
    for nm in (f"domain-{agent_ids[0]}.pddl~", f"domain-{agent_ids[-1]}.pddl.bak", "domain-old.pddl.orig"):
        fs.write_real(ddir / nm, stale)
    ctx.log("input", tuple(texts), dummy)
    # ---- bystanders parsed before
    b_typed = C.parse_domain(ctx, TYPED, "bystander-typed.pddl")
    b_untyped = C.parse_domain(ctx, UNTYPED, "bystander-untyped.pddl")
    own = C.parse_domain(ctx, texts[0], "bystander-own.pddl")  # a previously parsed copy of an agent domain
    dig = {"typed": digest_domain(b_typed), "untyped": digest_domain(b_untyped), "agent-copy": digest_domain(own)}

    def check_bystanders(when):
        for name, dom in (("typed", b_typed), ("untyped", b_untyped), ("agent-copy", own)):
            try:
                now = digest_domain(dom)
            except walker.WalkError as e:
                raise Violation("C17/bystander-modified", "locate_domains", f"{when}: {name}: {e}")
            if now != dig[name]:
                raise Violation("C17/bystander-modified", "locate_domains",
                                f"{when}: previously parsed {name} domain changed")
        check_fresh_domain(ctx, "locate_domains", when)

    from pddl_plus_parser.multi_agent import MultiAgentDomainsConverter, MultiAgentProblemsConverter
    conv = MultiAgentDomainsConverter(ddir)
    # ---- fault: an unreadable / torn agent file => the call raises, nothing is disturbed
    if nfiles >= 1 and cfg.chance(1, 4):
        which = ops.draw(nfiles)
        kind = f.draw(3)
        p = ddir / f"domain-{agent_ids[which]}.pddl"
        good = texts[which]
        if kind == 0:
            cut = f.draw(max(1, len(good) - 2))
            fs.write_real(p, good[:cut])
            ctx.faults["agent_file_torn"] += 1
            raised = False
            try:
                conv.locate_domains(add_dummy_actions=dummy)
            except Exception:
                raised = True
            if not raised and sexpr.classify(good[:cut])[0] == "reject":
                raise Violation("C17/torn-agent-file-accepted", "locate_domains",
                                f"domain-{agent_ids[which]}.pddl cut after {cut} of {len(good)} bytes was combined without error")
            fs.write_real(p, good)
        else:
            # the read fault hits whichever file is opened first in this discovery order
            exc = [PermissionError(errno.EACCES, "sim"), OSError(errno.EIO, "sim")][f.draw(2)]
            fs.arm_read(["open", "read"][kind - 1], exc)
            ctx.faults["agent_file_unreadable"] += 1
            try:
                conv.locate_domains(add_dummy_actions=dummy)
            except OSError:
                pass
            else:
                raise Violation("C17/read-fault-swallowed", "locate_domains", "returned despite a read error")
            fs.disarm()
        check_bystanders("after a combine call that failed")
    # ---- the combination under several discovery orders
    norders = 1 if nfiles == 1 else 2 + cfg.draw(3)
    first = None
    for o in range(norders):
        if o:
            ctx.new_epoch()
        try:
            comb = conv.locate_domains(add_dummy_actions=dummy)
        except Exception as e:
            raise Violation("C17/combine-raised", "locate_domains", f"{type(e).__name__}: {e}")
        w = walker.w_domain(comb)
        check_union(ctx, w, union, W, dummy, f"discovery order #{o}")
        key = (c08.vocab(w), {a: G.canon_action(v) for a, v in w["actions"].items()})
        if first is None:
            first = key
        elif key != first:
            raise Violation("C17/order-dependent", "locate_domains", f"discovery order #{o} gives a different combination: "
                            f"{c08.vocab_diff(first[0], key[0])}")
        ctx.log("order", o, "ok")
    check_bystanders("after locate_domains")
    # ---- history: one agent file is regenerated with other content of exactly the same size (an action gets another
    # name of the same length); the SAME converter object combines again and must see the files as they are now (on a
    # file system whose timestamps do not advance, size and mtime of the file are unchanged)
    if cfg.chance(1, 3):
        i = ops.draw(nfiles)
        acts = sorted(files[i]["actions"])
        used = {a for F in files for a in F["actions"]}
        if acts:
            a = acts[ops.draw(len(acts))]
            b = a[:-1] + ("z" if a[-1] != "z" else "y")
            if b not in used:
                F2 = dict(files[i], actions={(b if k == a else k): v for k, v in files[i]["actions"].items()})
                files2 = files[:i] + [F2] + files[i + 1:]
                pth = ddir / f"domain-{agent_ids[i]}.pddl"
                fs.write_real(pth, G.render_domain(F2, private=privates[i]))
                try:
                    comb2 = conv.locate_domains(add_dummy_actions=dummy)
                except Exception as e:
                    raise Violation("C17/combine-raised", "locate_domains", f"{type(e).__name__}: {e}")
                check_union(ctx, walker.w_domain(comb2), union_vocab(files2), W, dummy,
                            f"same converter, after domain-{agent_ids[i]}.pddl was regenerated with the same size")
                fs.write_real(pth, texts[i])
                ctx.probes["agent_file_regenerated_same_size"] += 1
    # ---- history: another agent joins - a new agent file appears in the directory (one of the files with an action under
    # another name) - and the SAME converter combines again: the union now includes the newcomer
    if cfg.chance(1, 4):
        i = ops.draw(nfiles)
        acts = sorted(files[i]["actions"])
        used = {a for F in files for a in F["actions"]}
        if acts:
            a = acts[ops.draw(len(acts))]
            b = a[:-1] + ("z" if a[-1] != "z" else "y")
            if b not in used:
                Fn = dict(files[i], actions={b: files[i]["actions"][a]})
                newp = ddir / "domain-znewcomer.pddl"
                fs.write_real(newp, G.render_domain(Fn))
                try:
                    comb_n = conv.locate_domains(add_dummy_actions=dummy)
                except Exception as e:
                    raise Violation("C17/combine-raised", "locate_domains", f"{type(e).__name__}: {e}")
                finally:
                    import os as _os
                    _os.remove(newp)
                check_union(ctx, walker.w_domain(comb_n), union_vocab(files + [Fn]), W, dummy,
                            "same converter, after a new agent file appeared in the directory")
                ctx.probes["agent_file_added_between_combinations"] += 1
    # ---- history: the caller revises the combination it was handed, in place (adds an effect to an action); the SAME
    # converter then combines the unchanged directory again - and must again produce the union of the agents' files
    if cfg.chance(1, 3):
        r = C.revise_model(ctx, W, comb, ops, kinds=("add_effect",))
        if r:
            try:
                comb3 = conv.locate_domains(add_dummy_actions=dummy)
            except Exception as e:
                raise Violation("C17/combine-raised", "locate_domains", f"{type(e).__name__}: {e}")
            check_union(ctx, walker.w_domain(comb3), union, W, dummy,
                        f"same converter, after the caller edited the earlier combination in place ({r[1]})")
            comb = comb3
            ctx.probes["recombined_after_caller_edit"] += 1
    # ---- export the combination (fault plan), re-parse
    out = ctx.dir("out")
    plan = ["ack", "ack", "error", "crash"][f.draw(4)]
    fault = False
    path = None
    if plan != "ack":
        fs.arm_write(plan, f.draw(400), [errno.ENOSPC, errno.EIO][f.draw(2)])
    if cfg.chance(1, 3):
        out = None  # default: the combined domain is written into the agents' directory itself
    try:
        path = conv.export_combined_domain(add_dummy_actions=dummy, output_folder=out)
    except OSError:
        ctx.faults["combined_export_error"] += 1
        fault = True
    except fs.SimCrash:
        ctx.faults["combined_export_crash"] += 1
        fault = True
    except Exception as e:
        raise Violation("C17/combined-export-raised", "export_combined_domain", f"{type(e).__name__}: {e}")
    fs.disarm()
    if fault:
        expected = (out if out is not None else ddir) / f"{W.D['name']}_combined_domain.pddl"
        if expected.exists():
            ctx.new_epoch()
            try:
                d_torn = L().DomainParser(expected).parse_domain()
            except Exception:
                ctx.probes["torn_combined_rejected"] += 1
            else:
                try:
                    check_union(ctx, walker.w_domain(d_torn), union, W, dummy, "torn combined export accepted")
                except Violation as v:
                    raise Violation("C17/torn-combined-export-accepted-as-different", v.site, v.detail)
        try:
            path = conv.export_combined_domain(add_dummy_actions=dummy, output_folder=out)
        except Exception as e:
            raise Violation("C17/retry-failed-after-faults-stopped", "export_combined_domain", f"{type(e).__name__}: {e}")
        ctx.probes["retry_ok"] += 1
    ctx.new_epoch()
    try:
        d2 = L().DomainParser(path).parse_domain()
    except Exception as e:
        raise Violation("C17/combined-export-rejected", "export_combined_domain -> DomainParser",
                        f"{type(e).__name__}: {e}")
    check_union(ctx, walker.w_domain(d2), union, W, dummy, "re-parsed combined export")
    check_bystanders("after export_combined_domain")
    # ---- problems
    # numeric goals (<= / >= on a ground fluent), some of them differing only beyond the fourth decimal
    goal_num = []
    # (a ground fluent with a repeated argument in a numeric *goal* loses the repetition at parse time - a problem-parse
    # defect outside the claimed properties (C05/C09); such goals are not generated)
    fl_keys = sorted(k for k in W.P["fluents"] if len(set(k[1:])) == len(k) - 1)
    if fl_keys:
        for _ in range(ops.draw(4)):
            k = ops.pick(fl_keys)
            c = ops.num(9, 0.5) + [0.0, 0.00001, 0.00004, 0.25][ops.draw(4)]
            g = ("cmp", ops.pick(["<=", ">="]), ("fn", k[0], list(k[1:])), c)
            if all(repr(g) != repr(x) for x in goal_num):
                goal_num.append(g)
        # round 15: goals that compare two fluents, and their mirror image (same comparator, operands swapped) - two
        # different goals built from the same leaves; the union holds both
        if len(fl_keys) >= 2 and ops.draw(3) == 0:
            k1 = ops.pick(fl_keys)
            k2 = ops.pick([k for k in fl_keys if k != k1])
            cmp_ = ops.pick(["<=", ">="])
            g1 = ("cmp", cmp_, ("fn", k1[0], list(k1[1:])), ("fn", k2[0], list(k2[1:])))
            goal_num.append(g1)
            if ops.draw(2) == 0:
                goal_num.append(("cmp", cmp_, g1[3], g1[2]))
            ctx.probes["fluent_vs_fluent_goals"] += 1
    share = cfg.chance(1, 3) and len(goal_num) > 0 and nfiles > 1
    if share:
        ctx.profile = "shared-numeric-goal"
    W.P = dict(W.P, goal_num=goal_num, share_numeric_goals=share)
    pfiles = split_problem(ops, W, nfiles)
    prefix = ["problem", "pfile", "p", "prob-x"][cfg.draw(4)]
    for i, PF in enumerate(pfiles):
        fs.write_real(ddir / f"{prefix}-{agent_ids[i]}.pddl", G.render_problem(W.D, PF))
    fs.write_real(ddir / f"{prefix}-{agent_ids[0]}.pddl.orig",
                  G.render_problem(W.D, dict(pfiles[0], facts=set(), goal=[], goal_num=[])).replace(
                      "(:objects", "(:objects stale-object - " + next(iter(W.D["types"])) + " "))
    pconv = MultiAgentProblemsConverter(ddir, prefix)
    # ---- fault: an unreadable / torn agent problem file => combine_problems raises; a later call is unaffected
    if cfg.chance(1, 3):
        which = ops.draw(nfiles)
        pp = ddir / f"{prefix}-{agent_ids[which]}.pddl"
        good = G.render_problem(W.D, pfiles[which])
        kind = f.draw(3)
        if kind == 0:
            cut = f.draw(max(1, len(good) - 2))
            fs.write_real(pp, good[:cut])
            ctx.faults["agent_problem_torn"] += 1
            raised = False
            try:
                MultiAgentProblemsConverter(ddir, prefix).combine_problems(path)
            except Exception:
                raised = True
            if not raised and sexpr.classify(good[:cut])[0] == "reject":
                raise Violation("C17/torn-agent-file-accepted", "combine_problems",
                                f"{prefix}-{which}.pddl cut after {cut} of {len(good)} bytes was combined without error")
            fs.write_real(pp, good)
        else:
            # let the domain file and (kind 2) the first agent problem be read, then fail
            exc = [PermissionError(errno.EACCES, "sim"), OSError(errno.EIO, "sim")][f.draw(2)]
            ctx.faults["agent_problem_unreadable"] += 1
            arm_nth_read(1 + (kind - 1) * min(1, nfiles - 1), exc)
            try:
                MultiAgentProblemsConverter(ddir, prefix).combine_problems(path)
            except OSError:
                pass
            except Exception as e:
                raise Violation("C17/combine-problems-raised", "combine_problems",
                                f"unexpected {type(e).__name__} instead of the read error: {e}")
            else:
                raise Violation("C17/read-fault-swallowed", "combine_problems", "returned despite a read error")
            finally:
                disarm_nth_read()
        check_bystanders("after a combine_problems call that failed")
    pfirst = None
    for o in range(1 if nfiles == 1 else 2):
        if o:
            ctx.new_epoch()
        try:
            cp = pconv.combine_problems(path)
        except Exception as e:
            raise Violation("C17/combine-problems-raised", "combine_problems", f"{type(e).__name__}: {e}")
        wp = walker.w_problem(cp)
        check_problem_union(ctx, cp, wp, W, f"discovery order #{o}")
    try:
        pconv.export_combined_problem(path)
        ctx.new_epoch()
        d3 = L().DomainParser(path).parse_domain()
        p3 = L().ProblemParser(ddir / "combined_problem.pddl", d3).parse_problem()
    except Exception as e:
        raise Violation("C17/combined-problem-export-rejected", "export_combined_problem -> ProblemParser",
                        f"{type(e).__name__}: {e}")
    check_problem_union(ctx, p3, walker.w_problem(p3), W, "re-parsed combined problem")
    check_bystanders("after combining problems")
    ctx.nontrivial = overlap or fault
    ctx.sample = {"files": nfiles, "dummy_actions": dummy, "orders": norders, "export_plan": plan,
                  "per_file_actions": [sorted(F["actions"]) for F in files],
                  "per_file_types": [sorted(F["types"]) for F in files]}
    ctx.steps += norders + 3


def check_union(ctx, w, union, W, dummy, what):
    site = "locate_domains"
    want_types = dict(union["types"])
    got = {"types": w["types"], "constants": w["constants"], "predicates": w["predicates"], "functions": w["functions"]}
    want = {"types": want_types, "constants": union["constants"], "predicates": dict(union["predicates"]),
            "functions": union["functions"]}
    want_actions = dict(union["actions"])
    if dummy:
        want["predicates"]["dummy-additional-predicate"] = []
    for k in got:
        if dict(sorted(got[k].items())) != dict(sorted((a, list(b) if isinstance(b, (list, tuple)) else b)
                                                       for a, b in want[k].items())):
            missing = sorted(set(want[k]) - set(got[k]))
            extra = sorted(set(got[k]) - set(want[k]))
            diff = [x for x in want[k] if x in got[k] and got[k][x] != (list(want[k][x]) if isinstance(
                want[k][x], (list, tuple)) else want[k][x])]
            raise Violation("C17/union-differs", site, f"{what}: {k}: missing={missing} extra={extra} differing={diff}")
    got_actions = dict(w["actions"])
    if dummy:
        for a in ("dummy-add-predicate-action", "dummy-del-predicate-action"):
            if a not in got_actions:
                raise Violation("C17/union-differs", site, f"{what}: dummy action {a} missing")
            got_actions.pop(a)
    if set(got_actions) != set(want_actions):
        raise Violation("C17/union-differs", site, f"{what}: actions missing={sorted(set(want_actions) - set(got_actions))} "
                                                   f"extra={sorted(set(got_actions) - set(want_actions))}")
    for a in want_actions:
        if G.canon_action(got_actions[a]) != G.canon_action(want_actions[a]):
            g, x = G.canon_action(got_actions[a]), G.canon_action(want_actions[a])
            part = next((k for k in ("params", "pre", "eff") if g.get(k) != x.get(k)), "?") if isinstance(g, dict) else "?"
            ctx.note(f"action {a} got:  {C.short(g, 900)}")
            ctx.note(f"action {a} want: {C.short(x, 900)}")
            raise Violation("C17/union-differs", site, f"{what}: action {a} differs from its declaration")
    if w["name"] != W.D["name"]:
        raise Violation("C17/union-differs", site, f"{what}: name {w['name']}")


def check_problem_union(ctx, cp, wp, W, what):
    site = "combine_problems"
    P = W.P
    if wp["objects"] != dict(P["objects"]) and dict(sorted(wp["objects"].items())) != dict(sorted(P["objects"].items())):
        raise Violation("C17/problem-union-differs", site,
                        f"{what}: objects {sorted(wp['objects'].items())} vs {sorted(P['objects'].items())}")
    nfacts = sum(len(g) for g in cp.initial_state_predicates.values())
    if wp["facts"] != set(P["facts"]) or nfacts != len(P["facts"]):
        raise Violation("C17/problem-union-differs", site,
                        f"{what}: facts missing={sorted(set(P['facts']) - wp['facts'])[:3]} "
                        f"extra={sorted(wp['facts'] - set(P['facts']))[:3]} stored={nfacts} distinct={len(P['facts'])}")
    if set(wp["fluents"]) != set(P["fluents"]) or any(wp["fluents"][k] != P["fluents"][k] for k in P["fluents"]):
        raise Violation("C17/problem-union-differs", site, f"{what}: fluents differ")
    if sorted(wp["goal"]) != sorted(set(map(tuple, P["goal"]))):
        raise Violation("C17/problem-union-differs", site,
                        f"{what}: goals {sorted(wp['goal'])} vs {sorted(set(map(tuple, P['goal'])))}")
    want_num = sorted(repr(("cmp", g[1], G.canon_x(g[2]), G.canon_x(g[3]))) for g in P.get("goal_num", []))
    got_num = sorted(repr(("cmp", g[1], G.canon_x(g[2]), G.canon_x(g[3]))) for g in wp["goal_num"])
    if "re-parsed" in what:
        # the problem exporter prints numeric goals with 4 decimals (its stated precision): compare at that precision
        def r4(g):
            return repr(("cmp", g[1], G.canon_x(g[2]), round(float(g[3]), 4) + 0.0 if isinstance(g[3], (int, float)) else G.canon_x(g[3])))
        # (distinct goals that print alike at that precision legitimately appear once each)
        want_num = sorted(r4(g) for g in P.get("goal_num", []))
        got_num = sorted(r4(g) for g in wp["goal_num"])
    if got_num != want_num:
        dup = len(got_num) != len(set(got_num))
        raise Violation("C17/problem-union-differs", site,
                        f"{what}: numeric goals {got_num} vs {want_num}",
                        {"numeric_goal_duplicated": True} if dup and sorted(set(got_num)) == sorted(set(want_num)) else {})
