"""C07 - queries and transitions are pure: inputs and earlier results are never modified.

Simulation dimension: S3 - 1-3 client threads share one parsed domain/problem/initial state and are interleaved
pre-emptively at line granularity by the tape (baton passing, sys.settrace); S4 - call histories; S1 - hash
schedule.  Faults: SimCancel raised at a tape-chosen line inside a library call; calls that fail on their own.
Oracles: (1) structural digests of the domain, the problem, every shared state and every previously returned result,
taken when they are created and again at quiescence, never change; (2) isolation - every call returns what the same
call (with only its own dependency chain) returns alone in a freshly parsed world, compared as abstract values;
(3) after all threads and faults stop, another round of queries still returns the isolated result."""
import os

from sim import fs, sched as schedmod
from sim.engine import Violation, Skip
from ref import interp, sexpr, pddl_reader, walker
from gen import pddl as G
from . import common as C
from . import c17
from .common import L

ID = "C07"
CANARY_IS_VIOLATION = True
RUNS = {"quick": 5_000, "thorough": 100_000}
BUDGET_S = {"quick": 120, "thorough": 800}
CHUNK = 60
SHRINK_BUDGET = 150
RULE = ("each run draws a (domain, problem), 1-3 client scripts of 3-9 operations each (Operator construction, ground, "
        "is_applicable, apply with every flag combination, re-apply an old Operator object to earlier/later states, print / "
        "export of action, domain, problem, state copy/serialize, trajectory export, parsing another typed/untyped domain, "
        "locate_domains on a scratch directory, deliberately failing calls); baselines are computed per operation in freshly "
        "parsed worlds, then the scripts run on real threads sharing one domain under a tape-driven pre-emptive scheduler "
        "(0-4 forced switches + p per traced line) with optional SimCancel; non-trivial = >= 2 threads with >= 1 context "
        "switch inside library code, or a cancellation fired, or a single thread re-used an operator; distinct = distinct "
        "history digests (scripts, schedule fingerprint, results)")
ASSUMPTIONS = ["pre-emption points are Python line events inside /repo/pddl_plus_parser (pure-Python dependencies run "
               "atomically)", "apply results are compared only when the reference interpreter finds the firing effects "
               "consistent (otherwise the outcome legitimately depends on processing order - C03's out-of-scope case)",
               "change_signature is an in-place mutator by contract and is excluded"]
REAL_VS_STUB = {"real": ["all of pddl_plus_parser exercised by the scripts; real threading.Thread objects"],
                "stub": ["which thread holds the baton (scheduler)", "__hash__ seam", "cancellation raised from the tracer"]}
TECHNIQUE = "deterministic simulation: baton-passing pre-emptive thread scheduler (sys.settrace) + cancellation faults (also aimed into first uses) + call histories (query toggle, object-less operators, API-made types, bystander domains); structural digests, process-global canary and per-call isolation baselines as oracle"
DESIGN_REF = "DESIGN.md §5 C07, §3.4"
LEVEL_TEXT = ("seeded exploration of thread interleavings (line granularity), call histories and cancellation points over a shared "
              "domain; every result is compared with its isolated execution and every input/earlier result is re-digested at "
              "quiescence; sampling of schedules, not exhaustive")
LEVEL_NOTE = "trusts the structural walker and the reference interpreter's consistency test; <= 3 threads, <= 9 operations each"

FLAGS = [(False, False), (True, False), (False, True), (True, True)]


def canon_sx(x):
    if isinstance(x, list):
        return ("L", tuple(sorted((canon_sx(y) for y in x), key=repr)))
    return x


def strip_types(txt):
    tree = sexpr.read_one(txt)

    def untype(x):
        out, i = [], 0
        while i < len(x):
            if x[i] == "-":
                i += 2
                continue
            out.append(untype(x[i]) if isinstance(x[i], list) else x[i])
            i += 1
        return out

    return interp.read_state_tree([":state"] + untype(tree))


def canon_text(txt):
    try:
        return canon_sx(sexpr.read_one(txt))
    except sexpr.Reject:
        try:
            return canon_sx(sexpr.read_one("(" + txt + ")"))
        except sexpr.Reject:
            return ("raw", " ".join(sorted(txt.split())))


# ------------------------------------------------------------------------------------------------ scripts
def gen_script(ctx, W, t, n, plan_hint, plan_det=True):
    """operations refer to states / operators by index of the producing operation in the same script (or 's0')"""
    ops = []
    states = ["s0"]      # refs
    abs_of = {"s0": interp.init_state(W.P)}   # reference value of each state ref (None = unknown)
    operators = []       # (ref index, aname, args)
    for i in range(n):
        k = t.draw(16)
        if k <= 4 or not ops:  # apply a fresh operator
            sref = t.pick(states)
            S = abs_of[sref]
            c = None
            if S is not None and t.chance(3, 4):
                r = None
                for _ in range(6):
                    cc = G.gen_call(t, W.D, W.P)
                    if cc is None:
                        continue
                    try:
                        if interp.applicable(S, W.action(cc[0]), cc[1], W.D, W.objs):
                            r = cc
                            break
                    except interp.Undefined:
                        pass
                c = r
            if c is None:
                c = G.gen_call(t, W.D, W.P)
            if c is None:
                continue
            flags = FLAGS[t.draw(4)]
            # an operator built without the problem's objects (the constructor's default): the library then skips
            # forall effects and quantifies forall conditions over the constants only - whatever it returns, the same
            # operator object must return it again later (the reference value of such results is unknown)
            noobj = t.draw(8) == 0
            quantified = noobj and has_forall(W.action(c[0]))
            ops.append({"kind": "apply", "state": sref, "call": c, "flags": flags, "det": determined(W, S, c, noobj),
                        "noobj": noobj, "quantified": quantified})
            operators.append((len(ops) - 1, c))
            states.append(len(ops) - 1)
            abs_of[len(ops) - 1] = None if quantified else predict(W, S, c, flags)
        elif k <= 6 and operators:  # re-apply an old operator object to an earlier / later state
            oref, c = t.pick(operators)
            sref = t.pick(states)
            flags = FLAGS[t.draw(4)]
            ops.append({"kind": "reapply", "op": oref, "state": sref, "call": c, "flags": flags,
                        "det": determined(W, abs_of[sref], c, ops[oref].get("noobj", False)),
                        "noobj": ops[oref].get("noobj", False)})
            states.append(len(ops) - 1)
            abs_of[len(ops) - 1] = None if ops[oref].get("quantified") else predict(W, abs_of[sref], c, flags)
        elif k == 7 and operators and t.chance(1, 2):
            # an old operator answers a query about a short-lived copy of one state, the copy is released, and the
            # operator is then applied to a fresh copy of another state
            oref, c = t.pick(operators)
            a_ref, b_ref = t.pick(states), t.pick(states)

            def app(ref):
                try:
                    return abs_of[ref] is not None and interp.applicable(abs_of[ref], W.action(c[0]), c[1], W.D, W.objs)
                except interp.Undefined:
                    return None
            yes = [r for r in states if app(r) is True]
            no = [r for r in states if app(r) is False]
            if yes and no and t.chance(2, 3):  # the interesting shape: query where applicable, apply where it is not
                a_ref, b_ref = t.pick(yes), t.pick(no)
            flags = FLAGS[0] if t.chance(1, 2) else FLAGS[t.draw(4)]
            ops.append({"kind": "reapply_tmp", "op": oref, "state": b_ref, "state2": a_ref, "call": c, "flags": flags,
                        "det": determined(W, abs_of[b_ref], c, ops[oref].get("noobj", False)),
                        "noobj": ops[oref].get("noobj", False)})
            states.append(len(ops) - 1)
            abs_of[len(ops) - 1] = None if ops[oref].get("quantified") else predict(W, abs_of[b_ref], c, flags)
        elif k == 7:
            sref = t.pick(states)
            c = G.gen_call(t, W.D, W.P)
            if c:
                ops.append({"kind": "applicable", "state": sref, "call": c, "det": abs_of[sref] is not None})
                operators.append((len(ops) - 1, c))  # the queried operator object stays in the script's hands
        elif k == 8:
            c = G.gen_call(t, W.D, W.P)
            if c:
                if t.chance(1, 3):
                    ops.append({"kind": "typed_call", "call": c, "how": t.draw(2)})
                else:
                    ops.append({"kind": "ground", "call": c})
        elif k == 9:
            ops.append({"kind": "print_action", "action": t.pick(sorted(W.D["actions"])), "how": t.draw(3)})
        elif k == 10:
            ops.append({"kind": "export_domain"})
        elif k == 11:
            ops.append({"kind": "export_problem"})
        elif k == 12:
            sref = t.pick(states)
            ops.append({"kind": ["copy", "serialize", "typed_serialize"][t.draw(3)], "state": sref,
                        "det": abs_of[sref] is not None})
            if ops[-1]["kind"] == "copy":
                states.append(len(ops) - 1)
                abs_of[len(ops) - 1] = abs_of[sref]
        elif k == 13:
            ops.append({"kind": "trajectory", "plan": plan_hint[: 1 + t.draw(3)], "allow": t.chance(1, 2),
                        "det": plan_det})
        elif k == 14:
            ops.append({"kind": ["parse_typed", "parse_untyped", "locate", "new_domain", "str_domain", "str_problem",
                                 "shallow_copy", "state_objects"][t.draw(8)]})
        else:
            c = G.gen_call(t, W.D, W.P)
            if c:
                how = t.draw(3)
                # the outcome of a malformed call is not specified (it may even depend on processing order); it is a
                # disturbance whose *result* is not compared - only its side effects are (digests)
                ops.append({"kind": "fail", "call": c, "how": how, "det": False})
    return ops


def predict(W, S, c, flags):
    """reference value of the state an apply returns, or None when the reference cannot determine it (input
    undetermined, firing effects inconsistent, or the call is refused)"""
    if S is None:
        return None
    try:
        act = W.action(c[0])
        nxt = interp.successor(S, act, c[1], W.D, W.objs)[0]
        if not interp.applicable(S, act, c[1], W.D, W.objs) and not (flags[0] or flags[1]):
            return None  # refused
        return nxt
    except (interp.Inconsistent, interp.Undefined):
        return None


def has_forall(act):
    def f(x):
        return x[0] == "forall" or (x[0] in ("and", "or") and any(f(y) for y in x[1]))
    return f(act["pre"]) or any(e[0] == "forall" or (e[0] == "when" and f(e[1])) for e in act["eff"])


def determined(W, S, c, noobj=False):
    """is the outcome of applying c in S (state or refusal) a function of (S, c) alone?  noobj: the operator was built
    without the problem's objects - the library then skips forall effects and quantifies conditions over the domain's
    constants only, so it is THAT evaluation which has to be free of conflicting effects"""
    if S is None:
        return False
    act, objs = W.action(c[0]), W.objs
    if noobj:
        act = dict(act, eff=[e for e in act["eff"] if e[0] != "forall"])
        objs = {o: ty for o, ty in W.objs.items() if o in W.D["constants"]}
    try:
        interp.successor(S, act, c[1], W.D, objs)
        interp.applicable(S, act, c[1], W.D, objs)
        return True
    except (interp.Inconsistent, interp.Undefined):
        return False


def deps(ops, i):
    need = set()

    def visit(j):
        if j == "s0" or j in need:
            return
        need.add(j)
        o = ops[j]
        for key in ("state", "op", "state2"):
            if key in o:
                visit(o[key])

    o = ops[i]
    for key in ("state", "op", "state2"):
        if key in o:
            visit(o[key])
    return sorted(need)


# ------------------------------------------------------------------------------------------------ execution
class Env:
    def __init__(self, ctx, W, tag, locate_dir, baseline=False):
        self.baseline = baseline  # isolated baseline: re-use of an operator object is replaced by a fresh operator
        self.ctx = ctx
        self.W = W
        self.d, self.p, self.s0 = C.lib_world(ctx, W, tag=tag)
        if getattr(ctx, "api_made_type", False):
            # a type added through the object API with the constructor's defaults (no parent): unused by any action,
            # but part of the domain that every operation is handed
            from pddl_plus_parser.models import PDDLType
            self.d.types["zt-api"] = PDDLType("zt-api")
        self.locate_dir = locate_dir
        self.tag = tag
        # exporter objects that every client thread of this world uses (helpers are shared the way the domain is)
        self.exporters = {a: L().TrajectoryExporter(self.d, allow_invalid_actions=a) for a in (False, True)}


def exec_op(env, ops, i, store):
    """-> comparable result.  store: index -> {'state': State, 'op': Operator} of this script"""
    o = ops[i]
    k = o["kind"]
    d, p = env.d, env.p
    lib = L()

    def state_of(ref):
        if ref == "s0":
            return env.s0
        ent = store.get(ref)
        return ent.get("state") if ent else None

    if k == "reapply_tmp":
        st, other = state_of(o["state"]), state_of(o["state2"])
        ent = store.get(o["op"])
        op = ent.get("op") if ent else None
        if st is None or other is None or op is None:
            return ("skipped",)
        store[i] = {"op": op}
        if env.baseline:
            # what the call must return: a fresh operator applied to the state, no history
            try:
                r = lib.Operator(d.actions[o["call"][0]], d, list(o["call"][1]),
                                 None if o.get("noobj") else p.objects).apply(
                    st.copy(), allow_inapplicable_actions=o["flags"][0], skip_validation=o["flags"][1])
            except Exception as e:
                return ("exc", type(e).__name__)
            store[i]["state"] = r
            return ("state", C.abs_state(r, "Operator.apply", ID))
        try:
            # the fresh state's containers are prepared first, so that the State object created right after the
            # temporary is released is the very next allocation of its size (it then re-uses the temporary's address
            # whatever the heap looked like before: the history is reproducible in a fresh interpreter)
            c = st.copy()
            preds, fl, is_init = c.state_predicates, c.state_fluents, c.is_init
            del c
            tmp = other.copy()
            op.is_applicable(tmp)
            del tmp
            fresh = lib.State(preds, fl, is_init)
            r = op.apply(fresh, allow_inapplicable_actions=o["flags"][0], skip_validation=o["flags"][1])
        except schedmod.SimCancel:
            raise
        except Exception as e:
            return ("exc", type(e).__name__)
        store[i]["state"] = r
        return ("state", C.abs_state(r, "Operator.apply", ID))
    if k in ("apply", "reapply"):
        st = state_of(o["state"])
        if st is None:
            return ("skipped",)
        objs = None if o.get("noobj") else p.objects
        if k == "apply":
            op = lib.Operator(d.actions[o["call"][0]], d, list(o["call"][1]), objs)
        else:
            ent = store.get(o["op"])
            op = ent.get("op") if ent else None
            if op is None:
                return ("skipped",)
            if env.baseline:
                op = lib.Operator(d.actions[o["call"][0]], d, list(o["call"][1]), objs)
        store[i] = {"op": op}
        try:
            r = op.apply(st, allow_inapplicable_actions=o["flags"][0], skip_validation=o["flags"][1])
        except schedmod.SimCancel:
            raise
        except Exception as e:
            return ("exc", type(e).__name__)
        store[i]["state"] = r
        return ("state", C.abs_state(r, "Operator.apply", ID))
    if k == "applicable":
        st = state_of(o["state"])
        if st is None:
            return ("skipped",)
        op = lib.Operator(d.actions[o["call"][0]], d, list(o["call"][1]), p.objects)
        store[i] = {"op": op}
        try:
            return ("bool", bool(op.is_applicable(st)))
        except schedmod.SimCancel:
            raise
        except Exception as e:
            return ("exc", type(e).__name__)
    if k == "typed_call":
        op = lib.Operator(d.actions[o["call"][0]], d, list(o["call"][1]), p.objects if o["how"] else None)
        try:
            return ("text", str(op) + " " + op.typed_action_call)
        except schedmod.SimCancel:
            raise
        except Exception as e:
            return ("exc", type(e).__name__)
    if k == "ground":
        op = lib.Operator(d.actions[o["call"][0]], d, list(o["call"][1]), p.objects)
        try:
            op.ground()
            pre = sorted((x.untyped_representation if hasattr(x, "untyped_representation") else x.to_pddl())
                         for _, x in op.grounded_preconditions)
            eff = sorted(sorted(e.untyped_representation for e in g.grounded_discrete_effects) +
                         sorted(e.to_pddl() for e in g.grounded_numeric_effects) for g in op.grounded_effects)
            return ("ground", tuple(pre), tuple(map(tuple, eff)), op.typed_action_call)
        except schedmod.SimCancel:
            raise
        except Exception as e:
            return ("exc", type(e).__name__)
    if k == "print_action":
        a = d.actions[o["action"]]
        try:
            if o["how"] == 0:
                return ("text", str(a))
            if o["how"] == 1:
                return ("text", canon_text(a.preconditions.print(should_simplify=False)))
            return ("text", canon_text(a.effects_to_pddl()))
        except schedmod.SimCancel:
            raise
        except Exception as e:
            return ("exc", type(e).__name__)
    if k == "export_domain":
        try:
            txt = lib.DomainExporter().extract_domain(d)
        except schedmod.SimCancel:
            raise
        except Exception as e:
            return ("exc", type(e).__name__)
        try:
            r = pddl_reader.read_domain_text(txt)
            return ("domain", repr(sorted(G.canon_domain(r).items())))
        except Exception:
            return ("text", canon_text(txt))
    if k == "export_problem":
        try:
            return ("text", canon_text(lib.ProblemExporter().extract_problem(p)))
        except schedmod.SimCancel:
            raise
        except Exception as e:
            return ("exc", type(e).__name__)
    if k in ("copy", "serialize", "typed_serialize"):
        st = state_of(o["state"])
        if st is None:
            return ("skipped",)
        if k == "copy":
            c = st.copy()
            store[i] = {"state": c}
            return ("state", C.abs_state(c, "State.copy", ID))
        if k == "serialize":
            return ("state", interp.read_state_text(st.serialize()))
        # the type annotation a fact carries depends on which effect added it first (set iteration order), so it is not
        # part of the state's value: the typed text is compared with the annotations stripped
        return ("state", strip_types(st.typed_serialize()))
    if k == "trajectory":
        try:
            exporter = lib.TrajectoryExporter(d, allow_invalid_actions=o["allow"]) if env.baseline else \
                env.exporters[o["allow"]]
            tr = exporter.parse_plan(p, action_sequence=[C.fmt_call(*c) for c in o["plan"]])
            return ("states", tuple(repr(sorted(C.abs_state(t.next_state, "parse_plan", ID)[0])) +
                                    repr(sorted(C.abs_state(t.next_state, "parse_plan", ID)[1].items())) for t in tr))
        except schedmod.SimCancel:
            raise
        except Violation:
            raise
        except Exception as e:
            return ("exc", type(e).__name__)
    if k in ("parse_typed", "parse_untyped"):
        txt = c17.TYPED if k == "parse_typed" else c17.UNTYPED
        path = env.locate_dir / f"{k}.pddl"
        try:
            dd = lib.DomainParser(path).parse_domain()
            return ("digest", c17.digest_domain(dd))
        except schedmod.SimCancel:
            raise
        except Exception as e:
            return ("exc", type(e).__name__)
    if k == "locate":
        from pddl_plus_parser.multi_agent import MultiAgentDomainsConverter
        try:
            dd = MultiAgentDomainsConverter(env.locate_dir).locate_domains()
            return ("digest", c17.digest_domain(dd))
        except schedmod.SimCancel:
            raise
        except Exception as e:
            return ("exc", type(e).__name__)
    if k in ("str_domain", "str_problem"):
        try:
            txt = str(d) if k == "str_domain" else str(p)
            return ("words", tuple(sorted(txt.replace("[", " ").replace("]", " ").replace(",", " ").split())))
        except schedmod.SimCancel:
            raise
        except Exception as e:
            return ("exc", type(e).__name__)
    if k == "shallow_copy":
        try:
            c = d.shallow_copy()
            return ("shallow", c.name, tuple(sorted(c.types)), tuple(sorted(c.constants)), tuple(sorted(c.predicates)),
                    tuple(sorted(c.functions)), tuple((a, tuple((n, ty.name) for n, ty in act.signature.items()))
                                                       for a, act in sorted(c.actions.items())))
        except schedmod.SimCancel:
            raise
        except Exception as e:
            return ("exc", type(e).__name__)
    if k == "state_objects":
        try:
            objs = env.s0.get_state_objects()
            return ("objects", tuple(sorted(objs)))
        except schedmod.SimCancel:
            raise
        except Exception as e:
            return ("exc", type(e).__name__)
    if k == "new_domain":
        nd = lib.Domain()
        return ("fresh", tuple(nd.types), len(nd.actions), len(nd.predicates), len(nd.constants), len(nd.functions))
    if k == "fail":
        name, args = o["call"]
        args = list(args)
        if o["how"] == 0:
            args = args[:-1] if args else ["nosuch"]
        elif o["how"] == 1:
            args = ["nosuch"] + args[1:] if args else ["nosuch"]
        try:
            if o["how"] == 2:
                op = lib.Operator(d.actions["no-such-action"], d, args, p.objects)
            else:
                op = lib.Operator(d.actions[name], d, args, p.objects)
            r = op.apply(env.s0)
            return ("state", C.abs_state(r, "Operator.apply", ID))
        except schedmod.SimCancel:
            raise
        except Violation:
            raise
        except Exception as e:
            return ("exc", type(e).__name__)
    raise ValueError(k)


def same(a, b):
    if a[0] != b[0]:
        return False
    if a[0] == "exc":
        # which exception class a failing call raises may depend on which offending item the library meets first (set
        # iteration order); that it fails is what is compared
        return True
    if a[0] == "state":
        return interp.state_eq(a[1], b[1])
    return a == b


def comparable(W, ops, i, abs_inputs):
    """apply results are compared only when the reference finds the call consistent in the input state"""
    o = ops[i]
    if o["kind"] not in ("apply", "reapply", "fail"):
        return True
    if o["kind"] == "fail":
        return True
    S = abs_inputs
    if S is None:
        return False
    try:
        interp.successor(S, W.action(o["call"][0]), o["call"][1], W.D, W.objs)
        return True
    except (interp.Inconsistent, interp.Undefined):
        return False


def snapshot(env, extra_states):
    """structural digests of everything that must never change"""
    snap = {"domain": c17.digest_domain(env.d), "schema_fluent_values": schema_fluent_values(env.d)}
    wp = walker.w_problem(env.p)
    snap["problem"] = repr((wp["name"], sorted(wp["objects"].items()), sorted(wp["facts"]), sorted(wp["fluents"].items()),
                            sorted(map(repr, wp["goal"])), sorted(map(repr, wp["goal_num"]))))
    snap["s0"] = repr(walker.w_state_detail(env.s0))
    for name, st in extra_states.items():
        snap[name] = repr(walker.w_state_detail(st))
    return snap


def schema_fluent_values(d):
    """the value fields of the fluent objects inside the lifted expression trees of the action schemas (and of the
    domain's function table): scratch space that only GROUNDED copies may ever write"""
    from anytree import PreOrderIter
    out = []

    def trees_of(cond):
        from pddl_plus_parser.models import NumericalExpressionTree
        from pddl_plus_parser.models.pddl_precondition import Precondition
        for x in cond.operands:
            if isinstance(x, NumericalExpressionTree):
                yield x
            elif isinstance(x, Precondition):
                yield from trees_of(x)

    for name in sorted(d.actions):
        act = d.actions[name]
        trees = list(trees_of(act.preconditions.root)) + list(act.numeric_effects)
        for ce in act.conditional_effects:
            trees += list(trees_of(ce.antecedents.root)) + list(ce.numeric_effects)
        for ue in act.universal_effects:
            for ce in ue.conditional_effects:
                trees += list(trees_of(ce.antecedents.root)) + list(ce.numeric_effects)
        vals = []
        for tr in trees:
            for node in PreOrderIter(tr.root):
                v = getattr(node, "value", None)
                if hasattr(v, "untyped_representation"):
                    vals.append((v.untyped_representation, repr(getattr(v, "value", None))))
        out.append((name, sorted(vals)))
    out.append(("functions", sorted((k, repr(getattr(f, "value", None))) for k, f in d.functions.items())))
    return repr(out)


def prepare_dir(ctx, W):
    ddir = ctx.dir("loc")
    fs.write_real(ddir / "parse_typed.pddl", c17.TYPED_NUMERIC if ctx.s("cfg").draw(2) else c17.TYPED)
    fs.write_real(ddir / "parse_untyped.pddl", c17.UNTYPED)
    fs.write_real(ddir / "domain-0.pddl", c17.TYPED)
    fs.write_real(ddir / "domain-1.pddl", c17.TYPED.replace("bystander", "bystander").replace(
        "(empty ?t - truck)", "(empty ?t - truck) (full ?t - truck)"))
    return ddir


def run(ctx):
    cfg = ctx.s("cfg")
    t = ctx.s("ops")
    sc = ctx.s("sched")
    feat = C.draw_features(ctx)
    feat["cond_numeric"] = cfg.chance(1, 4)
    # disjunctive / universal preconditions: drawn by draw_features for every check; asked for more often here
    nested = cfg.draw(5)
    if nested == 0:
        feat["or_pre"] = True
    elif nested == 1:
        feat["forall_pre"] = True
    W = C.World(ctx, feat)
    if cfg.chance(1, 4) and W.P["fluents"]:
        # a partial initial state: some ground fluents have no value yet (legal: they may be assigned later).  The
        # reference does not define reads of them, so results that depend on them are not compared - purity is.
        keep = {k: v for k, v in W.P["fluents"].items() if t.chance(2, 3)}
        W.P = dict(W.P, fluents=keep)
        ctx.probes["partial_initial_state"] += 1
    nthreads = [1, 2, 2, 3][cfg.draw(4)]
    _, trail = C.ref_walk(ctx, W, 3, t)
    plan_det = bool(trail)
    plan_hint = trail or [c for c in [G.gen_call(t, W.D, W.P)] if c]
    if not plan_hint:
        raise Skip()
    scripts = [gen_script(ctx, W, t, 3 + t.draw(7), plan_hint, plan_det) for _ in range(nthreads)]
    scripts = [s for s in scripts if s]
    dense = False
    if plan_det and nthreads >= 2 and cfg.chance(1, 5):
        # helper-sharing scenario: every thread exports trajectories through the world's shared exporters; the plan
        # repeats one call as long as it stays applicable (counters), so the threads evaluate the same grounded call on
        # different states; pre-emption is dense
        rep = []
        cur = interp.init_state(W.P)
        c0 = plan_hint[0]
        for _ in range(6):
            try:
                if not interp.applicable(cur, W.action(c0[0]), c0[1], W.D, W.objs):
                    break
                nxt = interp.successor(cur, W.action(c0[0]), c0[1], W.D, W.objs)[0]
            except (interp.Inconsistent, interp.Undefined):
                break
            if interp.too_large(nxt):
                break
            rep.append(c0)
            cur = nxt
        if len(rep) >= 2:
            allow = t.chance(1, 2)
            scripts = [[{"kind": "trajectory", "plan": rep[: 2 + t.draw(len(rep) - 1)], "allow": allow, "det": True}
                        for _ in range(2 + t.draw(2))] for _ in range(nthreads)]
            dense = True
            ctx.probes["shared_exporter_scenario"] += 1
    if not scripts:
        raise Skip()
    nthreads = len(scripts)
    ddir = prepare_dir(ctx, W)
    ctx.api_made_type = cfg.draw(4) == 0
    ctx.log("scripts", W.dom_text_plain, repr(scripts))
    # ---- (A) isolation baselines: each operation alone (with its dependency chain) in a freshly parsed world
    base = []
    try:
        for ti, ops in enumerate(scripts):
            res = []
            for i in range(len(ops)):
                ctx.new_epoch()
                env = Env(ctx, W, f"-b{ti}-{i}", ddir, baseline=True)
                store = {}
                for j in deps(ops, i):
                    exec_op(env, ops, j, store)
                res.append(exec_op(env, ops, i, store))
            base.append(res)
    except Violation as v:
        raise Violation(v.kind, v.site + " (isolated baseline)", v.detail, v.features)
    # ---- (B) the shared world
    ctx.new_epoch()
    try:
        env = Env(ctx, W, "-shared", ddir)
    except Exception as e:
        raise Violation("C07/generated-input-rejected", "DomainParser/ProblemParser", f"{type(e).__name__}: {e}")
    snap0 = snapshot(env, {})
    results = [[None] * len(ops) for ops in scripts]
    stores = [dict() for _ in scripts]
    result_digests = []  # (thread, i, State object, digest at return time)
    violations = []
    cancel_mode = cfg.chance(1, 4)
    single_checks = nthreads == 1
    targeted = {}
    sched_box = [None]

    def make_client(ti):
        ops = scripts[ti]

        def client():
            for i in range(len(ops)):
                if targeted.get((ti, i)):
                    sched_box[0].cancel_after(targeted[(ti, i)])
                try:
                    r = exec_op(env, ops, i, stores[ti])
                except schedmod.SimCancel:
                    r = ("cancelled",)
                    # the call produced no state, but an operator object whose first use was interrupted stays in the
                    # caller's hands: later 're-apply' operations use it and must get what a fresh operator returns
                    ent = stores[ti].get(i)
                    if ent is not None:
                        ent.pop("state", None)
                        if ent.get("op") is None:
                            stores[ti].pop(i, None)
                        else:
                            ctx.probes["cancelled_operator_kept"] += 1
                except Violation as v:
                    violations.append(v)
                    r = ("violation",)
                results[ti][i] = r
                # the harness's own observations read library properties: no cancellation is delivered inside them
                sched_box[0].no_cancel_depth += 1
                try:
                    ent = stores[ti].get(i)
                    if ent and ent.get("state") is not None and r[0] == "state":
                        result_digests.append((ti, i, ent["state"], repr(walker.w_state_detail(ent["state"]))))
                    if single_checks and not violations:
                        now = snapshot(env, {})
                        if now != snap0:
                            bad = [k for k in now if now[k] != snap0[k]]
                            violations.append(Violation("C07/input-modified", op_site(ops[i]),
                                                        f"after {describe(ops[i])}: {bad} changed",
                                                        {"what": bad[0]}))
                finally:
                    sched_box[0].no_cancel_depth -= 1
        return client

    pkg = os.path.join(os.environ.get("VERIF_REPO", "/repo"), "pddl_plus_parser")
    forced = ()
    cancel_at = ()
    est = 400 * sum(len(s) for s in scripts)
    if nthreads > 1:
        forced = sorted({1 + sc.draw(est) for _ in range(sc.draw(5))})
    if cancel_mode:
        cancel_at = sorted({1 + sc.draw(est) for _ in range(1 + sc.draw(2))})
        if sc.chance(1, 2):
            # aim one cancellation into the first use of an operator that the script re-uses later
            cands = [(ti, o["op"]) for ti, ops in enumerate(scripts) for o in ops
                     if o["kind"] in ("reapply", "reapply_tmp") and ops[o["op"]]["kind"] in ("apply", "applicable")]
            if cands:
                targeted[cands[sc.draw(len(cands))]] = 1 + sc.draw(1 << sc.draw(11))
                ctx.probes["targeted_cancellation"] += 1
    S = schedmod.Sched(sc, pkg, p_num=(1 if nthreads > 1 else 0), p_den=12 if dense else [50, 200, 1000][cfg.draw(3)],
                       forced=forced, cancel_at=cancel_at)
    sched_box[0] = S
    for ti in range(nthreads):
        S.spawn(f"client{ti}", make_client(ti))
    S.run()
    ctx.faults["preemptions"] += S.switches
    ctx.faults["cancellations"] += S.cancels
    ctx.probes["traced_lines"] += S.lines
    ctx.probes[f"threads_{nthreads}"] += 1
    ctx.log("schedule", tuple(S.schedule[:200]), S.cancels)
    if S.schedule:
        ctx.measure("thread_schedules (sequence of (traced line, thread) switch points)", tuple(S.schedule))
    ctx.measure("scripts (operation kinds per thread)", tuple(tuple(o["kind"] for o in ops) for ops in scripts))
    ctx.log("results", repr(results))
    reused = any(o["kind"] == "reapply" for ops in scripts for o in ops)
    ctx.nontrivial = (nthreads >= 2 and S.switches >= 1) or S.cancels > 0 or (nthreads == 1 and reused)
    ctx.sample = {"threads": nthreads, "scripts": [[describe(o) for o in ops] for ops in scripts][:3],
                  "switches": S.switches, "cancellations": S.cancels, "traced_lines": S.lines}
    if violations:
        raise violations[0]
    # ---- oracle 2: isolation
    for ti, ops in enumerate(scripts):
        for i, o in enumerate(ops):
            got, want = results[ti][i], base[ti][i]
            if got is None or got[0] in ("cancelled", "skipped") or want[0] == "skipped":
                continue
            if not o.get("det", True):
                ctx.probes["not_compared_undetermined"] += 1
                continue
            if not same(got, want):
                ctx.note(f"thread {ti} op {i}: {describe(o)}")
                ctx.note(f"  shared world: {C.short(got, 300)}")
                ctx.note(f"  isolated:     {C.short(want, 300)}")
                raise Violation("C07/result-differs-from-isolated-call", op_site(o),
                                f"thread {ti} op {i} {describe(o)}: " + diff(got, want),
                                {"threads": nthreads, "cancelled": S.cancels > 0})
            ctx.probes["results_compared"] += 1
    # ---- oracle 1: nothing that was handed in or returned earlier has changed
    snap1 = snapshot(env, {})
    if snap1 != snap0:
        bad = [k for k in snap1 if snap1[k] != snap0[k]]
        raise Violation("C07/input-modified", "shared domain/problem/state",
                        f"{bad} changed during the run (threads={nthreads}, cancellations={S.cancels})",
                        {"what": bad[0], "cancelled": S.cancels > 0})
    for ti, i, st, dg in result_digests:
        if repr(walker.w_state_detail(st)) != dg:
            raise Violation("C07/earlier-result-modified", op_site(scripts[ti][i]),
                            f"the state returned by thread {ti} op {i} ({describe(scripts[ti][i])}) changed afterwards",
                            {"cancelled": S.cancels > 0})
    # ---- oracle 3: after everything stopped, queries still return the isolated result (nothing sticky)
    for kind in ("export_domain", "export_problem"):
        ctx_ops = [{"kind": kind}]
        got = exec_op(env, ctx_ops, 0, {})
        ctx.new_epoch() if False else None
        for ti, ops in enumerate(scripts):
            for i, o in enumerate(ops):
                if o["kind"] == kind and base[ti][i][0] != "exc" and not same(got, base[ti][i]):
                    raise Violation("C07/sticky-effect", "DomainExporter/ProblemExporter after the run",
                                    f"{kind} after the run differs from its isolated result",
                                    {"cancelled": S.cancels > 0})
    for ti, ops in enumerate(scripts):
        for i, o in enumerate(ops):
            if o["kind"] in ("applicable", "ground", "print_action") and base[ti][i][0] != "exc" and o.get("det", True):
                got = exec_op(env, ops, i, dict(stores[ti]))
                if got[0] != "skipped" and not same(got, base[ti][i]):
                    raise Violation("C07/sticky-effect", op_site(o),
                                    f"repeating {describe(o)} after the run gives a different result: "
                                    + diff(got, base[ti][i]), {"cancelled": S.cancels > 0})
                ctx.probes["post_run_repeats"] += 1
    ctx.steps += sum(len(s) for s in scripts)
    query_toggle(ctx, W, env, stores, results, t)


def query_toggle(ctx, W, env, stores, results, t):
    """history on ONE operator object: query it where the action is applicable, then where it is not, then where it is
    again - and apply it there.  Every answer must be the one a fresh operator gives (repeating a call returns the same
    result whatever was asked in between).  States: the initial state and the states the script produced."""
    lib = L()
    pool = [(env.s0, interp.init_state(W.P))]
    for ti, store in enumerate(stores):
        for i, ent in store.items():
            r = results[ti][i]
            if ent.get("state") is not None and r and r[0] == "state":
                pool.append((ent["state"], r[1]))
    pool = pool[:6]
    for _ in range(8):
        c = G.gen_call(t, W.D, W.P)
        if c is None:
            continue
        act = W.action(c[0])
        try:
            app = [interp.applicable(A, act, c[1], W.D, W.objs) for _, A in pool]
            for (_, A), a in zip(pool, app):
                if a:
                    interp.successor(A, act, c[1], W.D, W.objs)
        except (interp.Inconsistent, interp.Undefined):
            continue
        yes = [st for (st, _), a in zip(pool, app) if a]
        no = [st for (st, _), a in zip(pool, app) if not a]
        if no and not yes:
            # no state of the script satisfies the precondition: build one from a state that does not
            Bs = C.force_applicable(pool[0][1], act, c[1], W)
            try:
                if interp.applicable(Bs, act, c[1], W.D, W.objs):
                    interp.successor(Bs, act, c[1], W.D, W.objs)
                    pb = C.parse_problem(ctx, W.problem_text(Bs), env.d, "toggle.pddl")
                    yes = [C.initial_state(pb)]
            except (interp.Inconsistent, interp.Undefined):
                pass
            except Exception:
                pass
        if not yes or not no:
            continue
        B, A_ = t.pick(yes), t.pick(no)
        site = "Operator.is_applicable / apply (one operator queried on several states)"

        def fresh():
            return lib.Operator(env.d.actions[c[0]], env.d, list(c[1]), env.p.objects)
        try:
            want_b, want_a = bool(fresh().is_applicable(B)), bool(fresh().is_applicable(A_))
            want_state = C.abs_state(fresh().apply(B.copy()), site, ID)
            op = fresh()
            got = [bool(op.is_applicable(B)), bool(op.is_applicable(A_)), bool(op.is_applicable(B))]
            if t.chance(1, 2):
                try:
                    op.apply(A_.copy())  # refused (or not): the operator stays in the caller's hands
                except ValueError:
                    pass
            got.append(bool(op.is_applicable(B)))
            got_state = C.abs_state(op.apply(B.copy()), site, ID)
        except Violation:
            raise
        except Exception as e:
            # a fresh operator failing on its own is not a purity matter; an operator failing only after the history is
            try:
                fresh().apply(B.copy())
            except Exception:
                continue
            raise Violation("C07/result-differs-from-isolated-call", site,
                            f"{C.fmt_call(*c)}: {type(e).__name__} after a history of queries, a fresh operator succeeds")
        ctx.probes["query_toggle_checked"] += 1
        if got != [want_b, want_a, want_b, want_b] or not interp.state_eq(got_state, want_state):
            raise Violation("C07/result-differs-from-isolated-call", site,
                            f"{C.fmt_call(*c)}: answers {got} on states (B, A, B, B), fresh operators say "
                            f"B:{want_b} A:{want_a}; successor of B {'equal' if interp.state_eq(got_state, want_state) else 'differs: ' + interp.state_diff(got_state, want_state)}")
        return


def in_state_abs(base, scripts, ti, sref, W):
    if sref == "s0":
        return interp.init_state(W.P)
    r = base[ti][sref]
    return r[1] if r[0] == "state" else None


def describe(o):
    k = o["kind"]
    if k in ("apply", "reapply", "reapply_tmp"):
        return f"{k} {C.fmt_call(*o['call'])} on state<{o['state']}> flags={o['flags']}" + (
            f" operator<{o['op']}>" if k != "apply" else "") + (
            f" after a query on a released copy of state<{o['state2']}>" if k == "reapply_tmp" else "")
    if "call" in o:
        return f"{k} {C.fmt_call(*o['call'])}" + (f" how={o['how']}" if "how" in o else "")
    return k + "".join(f" {a}={o[a]}" for a in ("action", "how", "state") if a in o)


def op_site(o):
    return {"apply": "Operator.apply", "reapply": "Operator.apply (re-used operator)", "reapply_tmp": "Operator.apply (re-used operator)", "applicable": "Operator.is_applicable",
            "ground": "Operator.ground", "print_action": "Action printers", "export_domain": "DomainExporter.extract_domain",
            "export_problem": "ProblemExporter.extract_problem", "trajectory": "TrajectoryExporter.parse_plan",
            "locate": "MultiAgentDomainsConverter.locate_domains"}.get(o["kind"], o["kind"])


def diff(got, want):
    if got[0] == "state" and want[0] == "state":
        return interp.state_diff(got[1], want[1])
    return f"{C.short(got, 160)} vs isolated {C.short(want, 160)}"
