"""Shipped test data of the repository used as an additional corpus (read through the reference reader)."""
import os

from sim import fs
from ref import pddl_reader, sexpr, interp

_cache = {}


def repo():
    return os.environ.get("VERIF_REPO", "/repo")


def _read(rel):
    with fs._real_open(os.path.join(repo(), "tests", rel), "r", encoding="utf-8") as f:
        return f.read()


SINGLE_TRIPLES = [
    ("exporters_tests/elevators_domain.pddl", "exporters_tests/elevators_p03.pddl", "exporters_tests/elevators_p03_plan.solution"),
    ("exporters_tests/depot_numeric.pddl", "exporters_tests/pfile2.pddl", "exporters_tests/depot_numeric.solution"),
    ("exporters_tests/domain_spider.pddl", "exporters_tests/pfile01_spider.pddl", "exporters_tests/pfile01_spider.solution"),
    ("exporters_tests/minecraft_domain.pddl", "exporters_tests/minecraft_problem.pddl", "exporters_tests/minecraft_pfile0.solution"),
    ("exporters_tests/domain_miconic.pddl", "exporters_tests/miconic_problem.pddl", "exporters_tests/miconic_solution.solution"),
]

MA_PLANS = [  # (domain, problem, sequential plan, agent names)
    ("multi_agent_tests/sokoban_domain.pddl", "multi_agent_tests/sokoban_problem.pddl", "multi_agent_tests/sokoban_plan.txt",
     ["player-01", "player-02"]),
    ("multi_agent_tests/combined_domain.pddl", "multi_agent_tests/combined_problem.pddl", "multi_agent_tests/woodworking_plan.txt",
     ["glazer0", "grinder0", "highspeed-saw0", "immersion-varnisher0", "planer0", "saw0", "spray-varnisher0"]),
    ("multi_agent_tests/depots_domain.pddl", "multi_agent_tests/depots_problem.pddl", "multi_agent_tests/depots_plan.txt",
     ["depot0", "depot1", "depot2", "depot3", "distributor0", "distributor1", "distributor2", "distributor3", "driver0",
      "driver1", "driver2", "driver3"]),
    ("multi_agent_tests/blocks_socs_experiment/original_domain.pddl", "multi_agent_tests/blocks_socs_experiment/original_problem_3.pddl",
     "multi_agent_tests/blocks_socs_experiment/sol.txt", ["a1", "a2", "a3"]),
    ("multi_agent_tests/satellite_numeric_multi_agent/metricSat.pddl", "multi_agent_tests/satellite_numeric_multi_agent/pfile010.pddl",
     "multi_agent_tests/satellite_numeric_multi_agent/pfile010.solution", None),
]


def load_ma_plan(i):
    key = ("ma", i, repo())
    if key in _cache:
        return _cache[key]
    d, p, s, agents = MA_PLANS[i]
    out = {"name": s, "dom_text": _read(d), "prob_text": _read(p), "plan_text": _read(s), "agents": agents}
    try:
        D = pddl_reader.read_domain_text(out["dom_text"])
        P = pddl_reader.read_problem_text(out["prob_text"], D)
        out["D"], out["P"] = D, P
        import re
        calls = []
        for m in re.finditer(r"\(([^()]+)\)", out["plan_text"]):
            t = m.group(1).lower().split()
            calls.append((t[0], t[1:]))
        out["calls"] = calls
        if agents is None:
            out["agents"] = sorted(o for o, ty in P["objects"].items() if ty == "satellite")
    except (pddl_reader.Unsupported, sexpr.Reject, KeyError, IndexError, ValueError) as e:
        out["unsupported"] = f"{type(e).__name__}: {e}"
    _cache[key] = out
    return out


WW_AGENTS = ["glazer0", "grinder0", "highspeed-saw0", "immersion-varnisher0", "planer0", "saw0", "spray-varnisher0"]
TRAJECTORIES = [  # (domain, problem or None, trajectory, executing agents or None)
    ("lisp_parsers_tests/depot_numeric.pddl", "lisp_parsers_tests/pfile2.pddl", "lisp_parsers_tests/test_numeric_trajectory", None),
    ("lisp_parsers_tests/farmland.pddl", "lisp_parsers_tests/pfile10_10.pddl", "lisp_parsers_tests/pfile10_10.trajectory", None),
    ("lisp_parsers_tests/woodworking_combined_domain.pddl", "lisp_parsers_tests/woodworking_combined_problem.pddl",
     "lisp_parsers_tests/ma_woodworking_trajectory.trajectory", WW_AGENTS),
    ("lisp_parsers_tests/logistics_combined_domain.pddl", "lisp_parsers_tests/pfile_probLOGISTICS-14-0.pddl",
     "lisp_parsers_tests/ma_logistics_trajectory.trajectory", ["apn1", "apn2", "tru1", "tru2", "tru3", "tru4", "tru5"]),
    ("lisp_parsers_tests/Depots.pddl", "lisp_parsers_tests/pfile1_depot.pddl",
     "lisp_parsers_tests/test_joint_trajectory_with_potential_bug",
     ["depot0", "distributor0", "distributor1", "distributor2", "distributor3", "truck0", "truck1", "truck2", "truck3"]),
    ("lisp_parsers_tests/starcraft_domain.pddl", None, "lisp_parsers_tests/starcraft_trajectory.trajectory",
     ["agent0", "agent1", "agent2", "agent3", "agent4"]),
]


def load_trajectory(i):
    key = ("traj", i, repo())
    if key in _cache:
        return _cache[key]
    d, p, t, agents = TRAJECTORIES[i]
    out = {"name": t, "dom_text": _read(d), "prob_text": _read(p) if p else None, "traj_text": _read(t), "agents": agents}
    try:
        states, steps = pddl_reader.read_trajectory_tree(sexpr.read_one(out["traj_text"]))
        out["states"], out["steps"] = states, steps
    except Exception as e:
        out["unsupported"] = f"{type(e).__name__}: {e}"
    _cache[key] = out
    return out


def load_single(i):
    """-> dict(dom_text, prob_text, plan_lines, D, P) ; D/P reference ASTs or raises pddl_reader.Unsupported"""
    key = ("single", i, repo())
    if key in _cache:
        return _cache[key]
    d, p, s = SINGLE_TRIPLES[i]
    dom_text, prob_text, plan = _read(d), _read(p), _read(s)
    out = {"name": d, "dom_text": dom_text, "prob_text": prob_text,
           "plan_lines": [l for l in plan.split("\n") if l.strip()]}
    try:
        D = pddl_reader.read_domain_text(dom_text)
        P = pddl_reader.read_problem_text(prob_text, D)
        out["D"], out["P"] = D, P
    except (pddl_reader.Unsupported, sexpr.Reject, KeyError, IndexError, ValueError) as e:
        out["unsupported"] = f"{type(e).__name__}: {e}"
    _cache[key] = out
    return out


def parse_plan_line(line):
    t = sexpr.tokens(line)
    t = [x for x in t if x not in ("(", ")")]
    return t[0], t[1:]
