"""Tape-driven workload generator: PDDL domains / problems as plain ASTs *and* as text.

AST conventions (shared with ref/interp.py and ref/walker.py):
 formula: ('and',[f..]) ('or',[f..]) ('not',atom) ('atom',name,[args]) ('=',a,b) ('neq',a,b)
          ('cmp',op,e1,e2) ('forall',var,type,('and'|'or',[f..]))
 expr:    number | ('fn',name,[args]) | (op,e1,e2)            op in + - * /
 effect:  ('add',atom) ('del',atom) ('num',kind,fn,expr) ('when',formula,[simple effects])
          ('forall',var,type,('when',formula,[simple effects]))
 domain:  dict(name, types{name:parent} (declaration order = dict order), constants{name:type},
          predicates{name:[types]}, functions{name:[types]}, actions{name:dict(params[(name,type)], pre, eff)})
 problem: dict(name, objects{name:type}, facts set[(pred,*args)], fluents{(fn,*args):value}, goal[formula atoms])

The generator avoids forms the library rejects by design (they are not workload): constant-only comparisons,
numeric '=' with a number first, repeated arguments inside one atom, quantified variables shadowing parameters.
"""
import itertools

DEFAULT_FEAT = dict(
    subtypes=True, constants=True, neg=True, equality=True, numeric=True, when=True, forall_eff=True,
    or_pre=False, forall_pre=False, bare_pre=False, nested_numeric=False, nested_cond=False, join_names=False, tiny_offsets=False, dense_quant=False, implicit_parent_types=False, many_constants=False, object_params=False, deep_types=False, agentless_action=False,   # nested / quantified / unwrapped preconditions
    cond_numeric=True,                       # numeric comparisons inside when/forall conditions
    child_first_types=False,                 # D10 finding profile
    repeated_call_objects=True, long_names=False,
    max_types=4, max_preds=4, max_funcs=3, max_actions=3, max_params=3, max_objects=5,
)


# values whose printed form needs care: exponent notation, many digits, non-dyadic fractions, large magnitudes
HARD_NUMBERS = [1e-05, 2.5e-07, 1.234e-05, 4.2857142857142856e-05, -1.25e-05, 1e-11, 0.1 + 0.2, 1 / 3, 123456789.125,
                1e16, -7e-05, 0.30000000000000004, 5e-324, 1.7976931348623157e+308 / 1e300]


def is_sub(types, a, b):
    while True:
        if a == b:
            return True
        if a == "object" or a not in types:
            return b == "object"
        a = types[a]


# ---------------------------------------------------------------------------------------------- domain
def gen_domain(t, feat=None, multi_agent=False):
    f = dict(DEFAULT_FEAT)
    f.update(feat or {})
    D = {"name": "dom"}
    ntypes = 1 + t.draw(f["max_types"])
    # names are drawn from shuffled pools so that alphabetical / hash order is independent of structure (depth in the
    # type tree, declaration order, arity)
    long_names = f.get("long_names", False)
    names = t.shuffle(["t0", "t1", "t-2", "t_3", "tt", "t10"])[:ntypes]
    if long_names:
        names = [f"quite-long-type-name-{n}" for n in names]
    types = {}
    if multi_agent:
        types["agent"] = "object"
    chain = []
    if f.get("deep_types") and f["subtypes"]:
        # round 15: a linear chain of 8-11 types above (some of) the ordinary ones, so that an object's type can be 9 or
        # more levels below the type a parameter or quantifier names
        chain = [f"lv{i}" for i in t.shuffle(list(range(8 + t.draw(4))))]
        for i, n in enumerate(chain):
            types[n] = "object" if i == 0 else chain[i - 1]
    for i, n in enumerate(names):
        if chain and t.chance(1, 2):
            types[n] = chain[-1] if t.chance(2, 3) else t.pick(chain)
            continue
        types[n] = "object" if i == 0 or not f["subtypes"] or t.chance(1, 2) else names[t.draw(i)]
    D["types"] = types
    tnames = list(types)
    D["constants"] = {}
    if f["constants"] and t.chance(1, 2):
        knames = t.shuffle(["k0", "k1", "k-2", "k_3", "k10"])
        for i in range(1 + t.draw(2)):
            D["constants"][knames[i]] = "object" if f.get("object_params") and t.draw(5) == 0 else t.pick(names)
    if f.get("many_constants"):
        # a wide vocabulary: a dozen or more constants of one type with ordinary hyphenated names (an exported
        # ':constants' group of several hundred characters)
        w1 = ["main", "north", "south", "east", "west", "upper", "lower", "old", "new", "far"]
        w2 = ["hall", "gate", "dock", "yard", "room", "lab", "shed", "pier"]
        ty = t.pick(names)
        for nm in t.shuffle([f"{a}-{b}" for a in w1 for b in w2])[:12 + t.draw(20)]:
            D["constants"][nm] = ty if t.draw(6) else t.pick(names)
    preds = {}
    pnames = t.shuffle(["p0", "p1", "p-2", "p_3", "pp", "p10"])
    for i in range(1 + t.draw(f["max_preds"])):
        ar = t.draw(4) if i else 1
        preds[pnames[i]] = [("object" if f.get("object_params") and t.draw(6) == 0 else t.pick(tnames)) for _ in range(ar)]
    D["predicates"] = preds
    funcs = {}
    if f["numeric"]:
        fnames = t.shuffle(["f0", "f1", "f-2", "f_3", "ff"])
        if f.get("nested_numeric"):
            # nested conditions are hashed through the symbolic simplifier at parse time, which resolves a function
            # called like a sympy name ('ff' is sympy's falling factorial) to that object and raises TypeError - a
            # defect of the simplification layer (C13 / C01, not claimed); such names stay out of these runs
            fnames = [("fg" if n == "ff" else n) for n in fnames]
        for i in range(1 + t.draw(f["max_funcs"])):
            funcs[fnames[i]] = [t.pick(tnames) for _ in range(t.draw(3))]
    D["functions"] = funcs
    acts = {}
    # (actions and objects have separate name spaces: in multi-agent domains an action may be called like an agent)
    anames = t.shuffle(["a0", "a1", "a-2", "a_3", "aa", "a10", "nop-wait", "noop", "no-op"] + (
        ["ag0", "ag1"] if multi_agent else ["nop"]))  # (single-agent domains may call an action of their own 'nop')
    for ai in range(1 + t.draw(f["max_actions"])):
        npar = t.draw(f["max_params"] + 1)
        if long_names:
            npar = 4 + t.draw(6)  # long parameter lists (an exported :parameters line of several hundred characters)
            params = [(f"?a-long-parameter-name-{j}", t.pick(tnames)) for j in range(npar)]
        elif f.get("join_names") and t.draw(3):
            # interchangeable arguments: at least two parameters of one type (the problem's objects get that type too)
            npar = max(npar, 2)
            params = [(f"?x{j}", [n for n in tnames if n != "agent"][0]) for j in range(npar)]
        else:
            params = [(f"?x{j}", t.pick(tnames)) for j in range(npar)]
        if f.get("object_params") and not long_names:
            # the root type itself as a parameter type (a parameter that ranges over every object)
            params = [(n, "object" if t.draw(5) == 0 else ty) for n, ty in params]
        if multi_agent:
            k = t.draw(len(params) + 1) if f.get("agent_anywhere", True) else 0
            params = params[:k] + [("?ag", "agent")] + params[k:]
        acts[anames[ai]] = {
            "params": params,
            "pre": gen_conj(t, D, params, f, top=True),
            "bare_pre": bool(f.get("bare_pre")) and t.draw(2) == 0,
            "eff": gen_effects(t, D, params, f),
        }
    if multi_agent and f.get("agentless_action") and len(acts) < len(anames):
        # an action nobody 'executes': no parameters at all (it speaks about nullary atoms, nullary fluents and constants)
        acts["all-" + anames[len(acts)]] = {"params": [], "pre": gen_conj(t, D, [], f, top=True), "bare_pre": False,
                                          "eff": gen_effects(t, D, [], f)}
    D["actions"] = acts
    D["implicit_types"] = set()
    if f.get("implicit_parent_types"):
        # a supertype that is only ever used as a parent may be left without a declaration line of its own
        # ('car truck - vehicle' alone makes vehicle a child of object)
        used = set()

        def scan(x):
            if isinstance(x, (list, tuple)):
                if len(x) >= 3 and x[0] == "forall":
                    used.add(x[2])
                for y in x:
                    scan(y)
        for sig in list(D["predicates"].values()) + list(D["functions"].values()):
            used.update(sig)
        used.update(D["constants"].values())
        for a in acts.values():
            used.update(ty for _, ty in a["params"])
            scan(a["pre"])
            scan(a["eff"])
        for n, par in types.items():
            if par == "object" and n not in used and n != "agent" and any(pp == n for pp in types.values()) and t.draw(2):
                D["implicit_types"].add(n)
    return D


def terms_of(D, scope, ty, t):
    c = [n for n, tt in scope if is_sub(D["types"], tt, ty)] + [
        k for k, tt in D["constants"].items() if is_sub(D["types"], tt, ty)
    ]
    return t.pick(c) if c else None


def _gen_app(t, D, scope, table):
    if not table:
        return None
    for _ in range(6):
        p = t.pick(list(table))
        args = []
        ok = True
        for ty in table[p]:
            a = terms_of(D, scope, ty, t)
            if a is None or a in args:  # no repeated argument inside one atom
                ok = False
                break
            args.append(a)
        if ok:
            return p, args
    return None


def gen_atom(t, D, scope):
    r = _gen_app(t, D, scope, D["predicates"])
    return ("atom", r[0], r[1]) if r else None


def gen_fn(t, D, scope):
    r = _gen_app(t, D, scope, D["functions"])
    return ("fn", r[0], r[1]) if r else None


def gen_expr(t, D, scope, depth=2):
    if depth > 0 and t.chance(1, 10):
        # arithmetic on two literals (a constant sub-expression), including quotients that do not terminate
        op = t.pick(["+", "-", "*", "/", "/"])
        a, b = t.num(17, 0.25), t.num(17, 0.25)
        if op == "/" and b == 0:
            b = 3.0
        return (op, a, b)
    if not D["functions"] or depth == 0 or t.chance(1, 3):
        if D["functions"] and t.chance(1, 2):
            fn = gen_fn(t, D, scope)
            if fn:
                return fn
        return t.num()
    op = t.pick(["+", "-", "*"])
    return (op, gen_expr(t, D, scope, depth - 1), gen_expr(t, D, scope, depth - 1))


def gen_lit(t, D, scope, f):
    k = t.draw(10)
    if k < 5 or (not f["neg"] and k < 7):
        return gen_atom(t, D, scope)
    if k < 7:
        a = gen_atom(t, D, scope)
        return ("not", a) if a else None
    if k < 8 and f["equality"] and len(scope) >= 2:
        a, b = t.pick(scope)[0], t.pick(scope)[0]
        return ("=" if t.chance(1, 2) else "neq", a, b)
    if f["numeric"] and D["functions"] and f.get("numeric_simple"):
        # the shape used inside nested conditions: one fluent against a constant, constants that may differ from each
        # other only beyond the fourth decimal
        fn = gen_fn(t, D, scope)
        if fn:
            c = t.num(9, 0.5) + ([0.0, 0.0, 0.00001, 0.00004, 0.25] if f.get("tiny_offsets") else [0.0, 0.25])[t.draw(5 if f.get("tiny_offsets") else 2)]
            return ("cmp", t.pick(["<", "<=", ">=", ">", ">", "<"]), fn, c)
        return gen_atom(t, D, scope)
    if f["numeric"] and D["functions"]:
        fn = gen_fn(t, D, scope)
        if fn:
            lhs = fn if t.chance(2, 3) else ("+", fn, gen_expr(t, D, scope, 1))
            return ("cmp", t.pick(["<", "<=", "=", ">=", ">"]), lhs, gen_expr(t, D, scope, 1))
    return gen_atom(t, D, scope)


def shift_constants(x, by):
    """the same condition with every numeric constant moved a little (a sibling that differs only beyond the 4th / 2nd
    decimal: printed forms that round agree)"""
    if x[0] == "cmp" and isinstance(x[3], (int, float)):
        return ("cmp", x[1], x[2], x[3] + by)
    if x[0] in ("and", "or"):
        return (x[0], [shift_constants(y, by) for y in x[1]])
    if x[0] == "forall":
        return ("forall", x[1], x[2], shift_constants(x[3], by))
    return x


def gen_conj(t, D, scope, f, top=False, depth=2):
    items = []
    # nested (or / forall) bodies are stored as Precondition objects whose hash/dedup goes through the simplifying
    # printer; numeric comparisons inside them run into the simplifier's defects already at parse time (TypeError /
    # AttributeError from the symbolic layer: C13's and C01's subject, neither claimed), so they are not generated
    # there unless feat["nested_numeric"] is set (no check sets it)
    fn = f if f.get("nested_numeric") == "full" else dict(f, numeric_simple=True) if f.get("nested_numeric") else dict(f, numeric=False)

    def near_dup(d):
        return shift_constants(d, [0.00003, 0.003][t.draw(2)])
    def lits(sc, n):
        out = []
        for _ in range(n):
            x = None
            if fn.get("numeric_simple") and fn["numeric"] and D["functions"] and t.draw(3) == 0:
                g = gen_fn(t, D, sc)
                if g:
                    c = t.num(9, 0.5) + ([0.0, 0.00001, 0.00004] if f.get("tiny_offsets") else [0.0])[t.draw(3 if f.get("tiny_offsets") else 1)]
                    x = ("cmp", t.pick(["<", ">", "<=", ">="]), g, c)
            x = x or gen_lit(t, D, sc, fn)
            if x:
                out.append(x)
        return out

    def disj(sc):
        sub = []
        for _ in range(1 + t.draw(3)):
            if t.draw(4) == 0:
                inner = lits(sc, 1 + t.draw(2))  # (or ... (and a b) ...)
                if inner:
                    sub.append(("and", inner))
            elif t.draw(12) == 0:
                sub.append(("and", []))  # an empty conjunction: an always-true member of the disjunction
            else:
                sub += lits(sc, 1)
        return ("or", sub) if sub else None

    dense = bool(f.get("dense_quant")) and top  # swarm: some runs pack several quantified conditions into one action
    for _ in range(2 + t.draw(4) if dense else t.draw(4)):
        k = t.draw(10)
        if dense and f["forall_pre"] and k >= 6:
            k = 2
        if k < 2 and f["or_pre"] and depth > 0:
            d = disj(scope)
            if d:
                items.append(d)
                if f.get("tiny_offsets") and repr(d).count("'cmp'") and t.draw(2) == 0:
                    items.insert(len(items) - t.draw(2), near_dup(d))  # before or after its sibling
                    D["_near_dup_siblings"] = D.get("_near_dup_siblings", 0) + 1
        elif k in (2, 3) and f["forall_pre"] and top:
            ty = t.pick(list(D["types"]))
            v = "?q"
            if f.get("shadowing", True) and scope and t.chance(1, 2 if dense else 5):
                v = t.pick(scope)[0]  # shadows a parameter: inside the forall the name denotes the quantified object
            sc = [(n, tt) for n, tt in scope if n != v] + [(v, ty)]
            if f["or_pre"] and t.draw(3) == 0:
                body = disj(sc)  # (forall (?q - ty) (or ...))
            else:
                sub = lits(sc, 1 + t.draw(2))
                if f["or_pre"] and sub and t.draw(4) == 0:
                    d = disj(sc)
                    if d:
                        sub.append(d)  # (forall (?q - ty) (and ... (or ...)))
                body = ("and", sub) if sub else None
            if body:
                items.append(("forall", v, ty, body))
        else:
            x = gen_lit(t, D, scope, f)
            if x:
                items.append(x)
    return ("and", items)


def gen_simple_effects(t, D, scope, f, n):
    out = []
    for _ in range(n):
        k = t.draw(10)
        if k < 4:
            a = gen_atom(t, D, scope)
            if a:
                out.append(("add", a))
        elif k < 7:
            a = gen_atom(t, D, scope)
            if a:
                out.append(("del", a))
        elif f["numeric"] and D["functions"]:
            fn = gen_fn(t, D, scope)
            if fn:
                out.append(("num", t.pick(["assign", "increase", "decrease"]), fn, gen_expr(t, D, scope, 1)))
    return out


def gen_effects(t, D, params, f):
    effs = gen_simple_effects(t, D, params, f, t.draw(4))
    fc = f if f.get("cond_numeric", True) else dict(f, numeric=False)
    # inside nested conditions: no numeric comparisons, or only the simple shape (see gen_conj)
    fnn = dict(fc, numeric_simple=True) if f.get("nested_numeric") and fc.get("numeric") else dict(fc, numeric=False)

    def cond(sc):
        """the condition of a when: a conjunction of literals; with nested_cond also disjunctions (possibly as the
        whole condition, written directly under 'when') and universally quantified conditions"""
        c = [x for x in (gen_lit(t, D, sc, fc) for _ in range(1 + t.draw(2))) if x]
        if not f.get("nested_cond"):
            return c, False
        k = t.draw(6)
        if k < 2:
            sub = [x for x in (gen_lit(t, D, sc, fnn) for _ in range(1 + t.draw(3))) if x]
            if sub:
                if k == 0:
                    return [("or", sub)], True  # (when (or a b) ...)
                c.append(("or", sub))
        elif k == 2:
            ty = t.pick(list(D["types"]))
            w = "?w"
            if f.get("shadowing", True) and sc and t.chance(1, 5):
                w = t.pick(sc)[0]
            sub = [x for x in (gen_lit(t, D, [(n, tt) for n, tt in sc if n != w] + [(w, ty)], fnn)
                               for _ in range(1 + t.draw(2))) if x]
            if sub:
                c.append(("forall", w, ty, ("and", sub)))
        return c, False

    if f["when"]:
        for _ in range(t.draw(3)):
            c, bare = cond(params)
            e = gen_simple_effects(t, D, params, f, 1 + t.draw(2))
            if c and e:
                effs.append(("when", ("and", c), e) + (("bare",) if bare else ()))
                if f.get("tiny_offsets") and "'cmp'" in repr(c) and t.draw(3) == 0:
                    # a sibling effect with the same body whose condition differs only in a late decimal of a constant
                    c2 = shift_constants(("and", c), [0.00003, 0.003][t.draw(2)])
                    if c2 != ("and", c):
                        effs.insert(len(effs) - t.draw(2), ("when", c2, list(e)) + (("bare",) if bare else ()))
    if f["forall_eff"]:
        for _ in range(t.draw(3)):
            ty = t.pick(list(D["types"]))
            v = "?u"
            if f.get("shadowing", True) and params and t.chance(1, 6):
                v = t.pick(params)[0]  # shadows a parameter: inside the forall the name denotes the quantified object
            sc = [(n, tt) for n, tt in params if n != v] + [(v, ty)]
            c, bare = cond(sc)
            e = gen_simple_effects(t, D, sc, f, 1 + t.draw(2))
            if c and e:
                effs.append(("forall", v, ty, ("when", ("and", c), e) + (("bare",) if bare else ())))
    return effs


# ---------------------------------------------------------------------------------------------- problem
def objects_of(D, allobj, ty):
    return [o for o, tt in allobj.items() if is_sub(D["types"], tt, ty)]


def gen_problem(t, D, feat=None, agents=0):
    f = dict(DEFAULT_FEAT)
    f.update(feat or {})
    names = [n for n in D["types"] if n != "agent" and n not in D.get("implicit_types", ())]
    objs = {}
    agnames = t.shuffle(["ag0", "ag1", "ag10", "ag-1", "ag_2", "agx"][:max(agents, 1) + 2])
    for i in range(agents):
        objs[agnames[i]] = "agent"
    # object names include ones that embed an agent's name at a hyphen boundary
    onames = t.shuffle(["o0", "o1", "o10", "o-1", "o_1", "o1a", "oo", "o2", "o3", "nop"] + (
        [f"pad-{agnames[0]}", f"{agnames[-1]}-b"] if agents else []))
    nobj = 2 + t.draw(max(1, f["max_objects"] - 1))
    if D["constants"] and not agents and t.chance(1, 12):
        nobj = 0  # every individual is a domain constant: the problem declares no objects at all
    one_type = None
    if f.get("join_names"):
        # names whose concatenations coincide under the usual separators: (a x x_x) / (a x_x x), (a x x-x) / (a x-x x)
        # ... any key built by joining a call's tokens with '_', '-' or nothing confuses such calls; the objects get
        # one type so that they are interchangeable as arguments
        onames = t.shuffle(["x", "x_x", "x-x", "x_x_x", "x-x-x", "xx", "x_x-x"])
        one_type = names[0]
    for i in range(min(nobj, len(onames))):
        objs[onames[i]] = one_type if one_type and t.draw(4) else t.pick(names)
    allobj = {**objs, **D["constants"]}
    facts = set()
    for p, sig in D["predicates"].items():
        for combo in itertools.product(*[objects_of(D, allobj, ty) for ty in sig]):
            if t.chance(1, 3):
                facts.add((p,) + combo)
    fl = {}
    hard = f.get("hard_numbers", False)
    # thresholds: the constants that fluents are compared with in (nested) conditions; some initial values are put on
    # and right next to them (2e-5 away: between two constants that agree to four decimals)
    thresholds = []

    def collect(x):
        if isinstance(x, (list, tuple)):
            if len(x) == 4 and x[0] == "cmp" and isinstance(x[3], (int, float)):
                thresholds.append(float(x[3]))
            for y in x:
                collect(y)
    if f.get("tiny_offsets"):
        for a in D["actions"].values():
            collect(a["pre"])
            collect(a["eff"])
    for fn, sig in D["functions"].items():
        for combo in itertools.product(*[objects_of(D, allobj, ty) for ty in sig]):
            if hard and t.chance(1, 3):
                fl[(fn,) + combo] = HARD_NUMBERS[t.draw(len(HARD_NUMBERS))]
            elif thresholds and t.chance(1, 2):
                fl[(fn,) + combo] = thresholds[t.draw(len(thresholds))] + [0.00002, -0.00002, 0.0, 0.002, -0.002, 0.0005, -0.0005, 0.00002][t.draw(8)]
            else:
                fl[(fn,) + combo] = t.num()
    goal = []
    for _ in range(t.draw(3)):
        if facts and t.chance(1, 2):
            goal.append(sorted(facts)[t.draw(len(facts))])
    return {"name": "prob", "objects": objs, "facts": facts, "fluents": fl, "goal": sorted(set(goal))}


def all_objects(D, P):
    return {**P["objects"], **D["constants"]}


def gen_call(t, D, P, aname=None, distinct=False):
    """a type-correct call (action name, [objects]) or None"""
    allobj = all_objects(D, P)
    aname = aname or t.pick(list(D["actions"]))
    args = []
    for _, ty in D["actions"][aname]["params"]:
        c = objects_of(D, allobj, ty)
        if distinct:
            c = [x for x in c if x not in args]
        if not c:
            return None
        args.append(t.pick(c))
    return aname, args


# ---------------------------------------------------------------------------------------------- rendering
def r_num(v):
    v = float(v)
    return str(int(v)) if v.is_integer() else repr(v)


def r_atom(a):
    return "(" + " ".join([a[1]] + list(a[2])) + ")"


def r_expr(e):
    if isinstance(e, (int, float)):
        return r_num(e)
    if e[0] == "fn":
        return "(" + " ".join([e[1]] + list(e[2])) + ")"
    return f"({e[0]} {r_expr(e[1])} {r_expr(e[2])})"


def r_f(f):
    k = f[0]
    if k in ("and", "or"):
        return f"({k} " + " ".join(r_f(x) for x in f[1]) + ")"
    if k == "not":
        return "(not " + r_atom(f[1]) + ")"
    if k == "atom":
        return r_atom(f)
    if k == "=":
        return f"(= {f[1]} {f[2]})"
    if k == "neq":
        return f"(not (= {f[1]} {f[2]}))"
    if k == "cmp":
        return f"({f[1]} {r_expr(f[2])} {r_expr(f[3])})"
    if k == "forall":
        return f"(forall ({f[1]} - {f[2]}) {r_f(f[3])})"
    raise ValueError(f)


def r_pre(a):
    """the precondition of an action; a one-condition conjunction may be written without its 'and' wrapper"""
    pre = a["pre"]
    if a.get("bare_pre") and pre[0] == "and" and len(pre[1]) == 1:
        return r_f(pre[1][0])
    return r_f(pre)


def r_e(e):
    k = e[0]
    if k == "add":
        return r_atom(e[1])
    if k == "del":
        return "(not " + r_atom(e[1]) + ")"
    if k == "num":
        return f"({e[1]} {r_expr(e[2])} {r_expr(e[3])})"
    if k == "when":
        c = r_f(e[1][1][0]) if len(e) > 3 and len(e[1][1]) == 1 else r_f(e[1])  # 'bare': no 'and' around the condition
        return f"(when {c} (and " + " ".join(r_e(x) for x in e[2]) + "))"
    if k == "forall":
        return f"(forall ({e[1]} - {e[2]}) {r_e(e[3])})"
    raise ValueError(e)


def r_sig(sig):
    return " ".join(f"{n} - {ty}" for n, ty in sig)


def type_decl_order(D, child_first=False, t=None):
    """declaration lines 'child - parent' with parents declared before children (or deliberately not)"""
    order = [(n, p) for n, p in D["types"].items() if n not in D.get("implicit_types", ())]
    if child_first:
        order = order[::-1]
    return order


def render_domain(D, child_first=False, requirements=(":typing",), decl_var="?v", private=None):
    """private: (list of predicate names, position) - those predicates are declared inside one '(:private ...)' group
    (MA-PDDL) placed at that position among the other predicate declarations"""
    s = f"(define (domain {D['name']})\n(:requirements {' '.join(requirements)})\n"
    s += "(:types " + " ".join(f"{n} - {p}" for n, p in type_decl_order(D, child_first)) + ")\n"
    if D["constants"]:
        s += "(:constants " + " ".join(f"{n} - {p}" for n, p in D["constants"].items()) + ")\n"
    decl = {p: "(" + p + (" " if sig else "") + r_sig([(f"{decl_var}{i}", ty) for i, ty in enumerate(sig)]) + ")"
            for p, sig in D["predicates"].items()}
    if private and private[0]:
        public = [decl[p] for p in decl if p not in private[0]]
        group = "(:private " + " ".join(decl[p] for p in decl if p in private[0]) + ")"
        at = min(private[1], len(public))
        s += "(:predicates " + " ".join(public[:at] + [group] + public[at:]) + ")\n"
    else:
        s += "(:predicates " + " ".join(decl.values()) + ")\n"
    if D["functions"]:
        s += "(:functions " + " ".join(
            "(" + p + (" " if sig else "") + r_sig([(f"{decl_var}{i}", ty) for i, ty in enumerate(sig)]) + ")"
            for p, sig in D["functions"].items()) + ")\n"
    for n, a in D["actions"].items():
        s += (f"(:action {n}\n :parameters ({r_sig(a['params'])})\n :precondition {r_pre(a)}\n"
              f" :effect (and {' '.join(r_e(e) for e in a['eff'])}))\n")
    return s + ")\n"


def render_problem(D, P, order=None):
    """order: optional stream used to permute the init section (history of construction)"""
    facts = sorted(P["facts"])
    fluents = list(P["fluents"].items())
    init = ["(" + " ".join(f) + ")" for f in facts] + [f"(= ({' '.join(k)}) {r_num(v)})" for k, v in fluents]
    if order is not None:
        init = order.shuffle(init)
    s = f"(define (problem {P['name']}) (:domain {D['name']})\n(:objects " + " ".join(
        f"{o} - {ty}" for o, ty in P["objects"].items()) + ")\n(:init " + " ".join(init) + ")\n"
    s += "(:goal (and " + " ".join("(" + " ".join(g) + ")" for g in P.get("goal", [])) + " " + " ".join(
        r_f(g) for g in P.get("goal_num", [])) + ")))\n"
    return s


def noise(text, t, level=1):
    """ambient layout noise: extra blanks/tabs/newlines around parentheses, comments, upper case.  Token content is
    unchanged (apart from case), so the reference reading of the result equals that of the input."""
    if level == 0:
        return text
    out = []
    i = 0
    n = len(text)
    upper = t.chance(1, 4)
    while i < n:
        ch = text[i]
        if ch in "()":
            r = t.draw(12)
            pre = ["", "", "", "", "", "", " ", "\t", "\n", "\r\n", " ; c (x\n", "  "][r]
            r2 = t.draw(12)
            post = ["", "", "", "", "", "", " ", "\t", "\n", " ;; note )\n", "\r\n", "\t "][r2]
            out.append(pre + ch + post)
        elif ch == " ":
            r = t.draw(10)
            out.append([" ", " ", " ", " ", "  ", "\t", "\n", " ;k\n", ";glued\n", "\r\n"][r])
        else:
            out.append(ch.upper() if upper and t.chance(1, 3) else ch)
        i += 1
    res = "".join(out)
    if t.chance(1, 4):
        res = "; header comment (with parens\n" + res
    if t.chance(1, 4):
        res = res + "\n; trailing comment )\n"
    return res


# ---------------------------------------------------------------------------------------------- canonical forms
def canon_f(f):
    k = f[0]
    if k in ("and", "or"):
        items = sorted({repr(canon_f(x)): canon_f(x) for x in f[1]}.items())
        return (k, tuple(v for _, v in items))
    if k == "not":
        return ("not", canon_f(f[1]))
    if k == "atom":
        return ("atom", f[1], tuple(f[2]))
    if k in ("=", "neq"):
        return (k, f[1], f[2])
    if k == "cmp":
        return ("cmp", f[1], canon_x(f[2]), canon_x(f[3]))
    if k == "forall":
        return ("forall", f[1], f[2], canon_f(f[3]))
    raise ValueError(f)


def canon_x(e):
    if isinstance(e, (int, float)):
        return float(e) + 0.0
    if e[0] == "fn":
        return ("fn", e[1], tuple(e[2]))
    return (e[0], canon_x(e[1]), canon_x(e[2]))


def canon_e(e):
    k = e[0]
    if k in ("add", "del"):
        return (k, canon_f(e[1]))
    if k == "num":
        return ("num", e[1], canon_x(e[2]), canon_x(e[3]))
    if k == "when":
        return ("when", canon_f(e[1]), tuple(sorted({repr(canon_e(x)): canon_e(x) for x in e[2]}.values(), key=repr)))
    if k == "forall":
        return ("forall", e[1], e[2], canon_e(e[3]))
    raise ValueError(e)


def canon_action(a):
    return dict(params=tuple(tuple(p) for p in a["params"]), pre=canon_f(a["pre"]),
                eff=tuple(sorted({repr(canon_e(x)): canon_e(x) for x in a["eff"]}.values(), key=repr)))


def canon_domain(D):
    return dict(name=D["name"], types=dict(sorted(D["types"].items())),
                constants=dict(sorted(D["constants"].items())),
                predicates={k: tuple(v) for k, v in sorted(D["predicates"].items())},
                functions={k: tuple(v) for k, v in sorted(D["functions"].items())},
                actions={k: canon_action(v) for k, v in sorted(D["actions"].items())})
