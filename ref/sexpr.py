"""Reference S-expression reader (independent of the repository).

';' to end of line is a comment; text is lower-cased; '(' and ')' are tokens;
other tokens are maximal runs of non-whitespace, non-parenthesis characters.
`read_one` demands exactly one balanced top-level parenthesised form.
"""


class Reject(Exception):
    pass


import re as _re

_TOKEN = _re.compile(r"[()]|[^\s()]+")


def tokens(text: str):
    out = []
    for line in text.replace("\r\n", "\n").replace("\r", "\n").split("\n"):
        i = line.find(";")
        if i >= 0:
            line = line[:i]
        out.extend(_TOKEN.findall(line.lower()))
    return out


def read_prefix(toks, i=0):
    """reads one form starting at i; returns (tree, next index)"""
    if i >= len(toks):
        raise Reject("unexpected end of input")
    t = toks[i]
    if t == "(":
        lst = []
        i += 1
        while True:
            if i >= len(toks):
                raise Reject("unbalanced: missing )")
            if toks[i] == ")":
                return lst, i + 1
            x, i = read_prefix(toks, i)
            lst.append(x)
    if t == ")":
        raise Reject("unexpected )")
    return t, i + 1


def read_one(text: str):
    toks = tokens(text)
    if not toks:
        raise Reject("empty")
    if toks[0] != "(":
        raise Reject("text does not start with a parenthesised form")
    tree, i = read_prefix(toks, 0)
    if i != len(toks):
        raise Reject("trailing tokens after the top-level form")
    return tree


def classify(text: str):
    """('ok', tree) | ('trailing', first tree) | ('reject', reason) | ('atom', token)"""
    toks = tokens(text)
    if not toks:
        return ("reject", "empty")
    if toks[0] == ")":
        return ("reject", "starts with )")
    if toks[0] != "(":
        # a bare atom is not a parenthesised form: alone it is ambiguous (either outcome is tolerated); followed by
        # anything it is an atom with a tail
        return ("atom", toks[0]) if len(toks) == 1 else ("trailing", toks[0])
    try:
        tree, i = read_prefix(toks, 0)
    except Reject as e:
        return ("reject", str(e))
    if i != len(toks):
        return ("trailing", tree)
    return ("ok", tree)
