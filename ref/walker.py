"""Structural walker: the only reference component that touches library objects.

Turns a library Domain / Action / State / Problem into the plain AST / abstract state of gen/pddl.py by attribute
access alone (ordered signature items, operands, (in)equality sets, effect sets, tree nodes, object_mapping,
stored_value, repeating_variables, type parent chain) - none of the library's printers or evaluators - sorting every
set so the result is independent of the hash schedule.  Harness bookkeeping attributes (_simh) are ignored."""


class WalkError(Exception):
    pass


def _cls(o):
    return type(o).__name__


def w_expr(n):
    if n.is_leaf:
        v = n.value
        if _cls(v) == "PDDLFunction":
            return ("fn", v.name, fn_args(v))
        return float(v)
    ch = n.children
    if len(ch) != 2:
        raise WalkError(f"node {n.value} with {len(ch)} children")
    return (n.value, w_expr(ch[0]), w_expr(ch[1]))


def fn_args(fn):
    """argument list of a lifted or grounded PDDLFunction, re-expanding the repeated-argument bookkeeping exactly the
    way the data model defines it (repeating variables first)"""
    rep = fn.repeating_variables or {}
    args = []
    for v, n in rep.items():
        args += [v] * n
    args += [p for p in fn.signature if p not in rep]
    return list(args)


def w_pred(p):
    a = ("atom", p.name, list(p.signature.keys()))
    return a if p.is_positive else ("not", a)


def w_gpred(p):
    """grounded predicate -> ground atom tuple (always positive form) , sign"""
    return (p.name,) + tuple(p.object_mapping[k] for k in p.signature), p.is_positive


def w_cond(c):
    ops = []
    for o in c.operands:
        k = _cls(o)
        if k == "UniversalPrecondition":
            ops.append(("forall", o.quantified_parameter, o.quantified_type.name, w_cond(o)))
        elif k == "Precondition":
            ops.append(w_cond(o))
        elif k in ("Predicate", "GroundedPredicate"):
            ops.append(w_pred(o))
        elif k == "NumericalExpressionTree":
            r = o.root
            if len(r.children) != 2:
                raise WalkError("comparison arity")
            ops.append(("cmp", r.value, w_expr(r.children[0]), w_expr(r.children[1])))
        elif o is None:
            raise WalkError("None operand")
        else:
            raise WalkError(f"operand {k}")
    for a, b in c.equality_preconditions:
        ops.append(("=", a, b))
    for a, b in c.inequality_preconditions:
        ops.append(("neq", a, b))
    return (c.binary_operator, ops)


def w_simple(discrete, numeric):
    out = []
    for p in discrete:
        a = ("atom", p.name, list(p.signature.keys()))
        out.append(("add", a) if p.is_positive else ("del", a))
    for e in numeric:
        r = e.root
        if len(r.children) != 2:
            raise WalkError("assignment arity")
        out.append(("num", r.value, w_expr(r.children[0]), w_expr(r.children[1])))
    return out


def w_action(a):
    eff = w_simple(a.discrete_effects, a.numeric_effects)
    for ce in a.conditional_effects:
        eff.append(("when", w_cond(ce.antecedents.root), w_simple(ce.discrete_effects, ce.numeric_effects)))
    for u in a.universal_effects:
        for ce in u.conditional_effects:
            eff.append(("forall", u.quantified_parameter, u.quantified_type.name,
                        ("when", w_cond(ce.antecedents.root), w_simple(ce.discrete_effects, ce.numeric_effects))))
    return {"params": [(k, v.name) for k, v in a.signature.items()], "pre": w_cond(a.preconditions.root), "eff": eff}


def w_type_chain(t):
    out = []
    seen = 0
    while t is not None:
        out.append(t.name)
        t = t.parent
        seen += 1
        if seen > 50:
            raise WalkError("type cycle")
    return out


def w_types(types):
    """name -> parent name ('object' for roots); 'object' itself omitted"""
    out = {}
    for k, v in types.items():
        if k == "object":
            continue
        out[k] = v.parent.name if v.parent is not None else "object"
    return out


def all_types(types):
    """the library registers a type in domain.types when it has a declaration line of its own; a supertype that is only
    ever used as a parent ('car truck - vehicle') exists as the parent object of its children.  -> both kinds"""
    ext = dict(types)
    for v in list(types.values()):
        t = getattr(v, "parent", None)
        n = 0
        while t is not None and t.name not in ext and n < 50:
            ext[t.name] = t
            t = t.parent
            n += 1
    return ext


def w_domain(d):
    types = all_types(d.types)
    return {
        "name": d.name,
        "requirements": list(d.requirements),
        "types": w_types(types),
        "type_chains": {k: w_type_chain(v) for k, v in types.items()},
        "constants": {k: v.type.name for k, v in d.constants.items()},
        "predicates": {k: [t.name for t in v.signature.values()] for k, v in d.predicates.items()},
        "predicate_params": {k: list(v.signature.keys()) for k, v in d.predicates.items()},
        "functions": {k: [t.name for t in v.signature.values()] for k, v in d.functions.items()},
        "actions": {k: w_action(v) for k, v in d.actions.items()},
    }


def w_state(s):
    """library State -> abstract state.  Raises WalkError on internal inconsistency (fluent key != its content)."""
    facts = set()
    nfacts = 0
    for lifted, group in s.state_predicates.items():
        for p in group:
            atom, pos = w_gpred(p)
            if not pos:
                raise WalkError(f"negative fact in state: {atom}")
            facts.add(atom)
            nfacts += 1
    fl = {}
    for key, fn in s.state_fluents.items():
        k = (fn.name,) + tuple(fn_args(fn))
        if k in fl:
            raise WalkError(f"fluent {k} stored twice")
        fl[k] = float(fn.stored_value)
    return (frozenset(facts), fl), nfacts


def w_state_detail(s):
    """order-canonical but *complete* structural digest material of a State (for purity digests): includes type
    annotations and dict keys"""
    groups = []
    for lifted, group in s.state_predicates.items():
        groups.append((lifted, tuple(sorted(
            (p.name, tuple(p.signature.keys()), tuple(t.name for t in p.signature.values()),
             tuple(sorted(p.object_mapping.items())), p.is_positive) for p in group))))
    fls = []
    for key, fn in s.state_fluents.items():
        fls.append((key, fn.name, tuple(fn.signature.keys()), tuple(t.name for t in fn.signature.values()),
                    tuple(sorted((fn.repeating_variables or {}).items())), float(fn.stored_value)))
    return (tuple(sorted(g for g in groups if g[1])), tuple(sorted(fls)), bool(s.is_init))


def w_problem(p):
    facts = set()
    for group in p.initial_state_predicates.values():
        for g in group:
            facts.add(w_gpred(g)[0])
    fl = {}
    for fn in p.initial_state_fluents.values():
        fl[(fn.name,) + tuple(fn_args(fn))] = float(fn.stored_value)
    goal = [w_gpred(g)[0] for g in p.goal_state_predicates]
    goal_num = []
    for e in p.goal_state_fluents:
        r = e.root
        goal_num.append(("cmp", r.value, w_expr(r.children[0]), w_expr(r.children[1])))
    return {"name": p.name, "objects": {k: v.type.name for k, v in p.objects.items()}, "facts": facts, "fluents": fl,
            "goal": goal, "goal_num": goal_num}
