"""Reference PDDL 2.1 level-2 interpreter over the plain ASTs of gen/pddl.py.  Imports nothing from the repository.

Abstract state = (frozenset of ground atoms (pred, *args), dict fluent (fn, *args) -> float).
successor(): collect every firing effect w.r.t. the PRE-state, evaluate all numeric right-hand sides in the
pre-state, then delete, add, assign.  Raises Inconsistent when the firing effects conflict (fluent written twice;
atom added by one effect group and deleted by another): such calls are outside the quantifier of C03.
"""
import itertools


class Inconsistent(Exception):
    pass


class Undefined(Exception):
    pass


def is_sub(types, a, b):
    while True:
        if a == b:
            return True
        if a == "object" or a not in types:
            return b == "object"
        a = types[a]


import os

# the library's documented tolerance for = <= >=, and its documented switch: the environment variable EPSILON, read
# when the process starts (one worker group of every check runs with EPSILON=0: exact comparisons)
EPS = float(os.environ.get("EPSILON", 1e-4))


def ev(e, S, b):
    if isinstance(e, (int, float)):
        return float(e)
    if e[0] == "fn":
        k = (e[1],) + tuple(b.get(a, a) for a in e[2])
        if k not in S[1]:
            raise Undefined(k)
        return S[1][k]
    x, y = ev(e[1], S, b), ev(e[2], S, b)
    op = e[0]
    if op == "+":
        return x + y
    if op == "-":
        return x - y
    if op == "*":
        return x * y
    if op == "/":
        return x / y
    raise ValueError(op)


def cmp(op, x, y):
    # the library compares with math.isclose(x, y, abs_tol=EPSILON), which also carries Python's default relative
    # tolerance of 1e-9; at the magnitudes the generator can reach (1e16 among the awkward numbers) that term matters.
    # Tolerance semantics is C12's subject (not claimed); the reference mirrors the library here.
    close = abs(x - y) <= max(EPS, 1e-9 * max(abs(x), abs(y)))
    return {"<": x < y, "<=": close or x < y, "=": close, ">=": close or x > y, ">": x > y}[op]


def holds(f, S, b, D, objs):
    k = f[0]
    if k == "and":
        return all(holds(x, S, b, D, objs) for x in f[1])
    if k == "or":
        return any(holds(x, S, b, D, objs) for x in f[1])
    if k == "atom":
        return (f[1],) + tuple(b.get(a, a) for a in f[2]) in S[0]
    if k == "not":
        return not holds(f[1], S, b, D, objs)
    if k == "=":
        return b.get(f[1], f[1]) == b.get(f[2], f[2])
    if k == "neq":
        return b.get(f[1], f[1]) != b.get(f[2], f[2])
    if k == "cmp":
        return cmp(f[1], ev(f[2], S, b), ev(f[3], S, b))
    if k == "forall":
        return all(holds(f[3], S, {**b, f[1]: o}, D, objs) for o, ty in objs.items() if is_sub(D["types"], ty, f[2]))
    raise ValueError(f)


def binding(act, args):
    return {p: a for (p, _), a in zip(act["params"], args)}


def applicable(S, act, args, D, objs):
    return holds(act["pre"], S, binding(act, args), D, objs)


def firing(S, act, args, D, objs):
    """-> (adds, dels, nums) each a list of (group, item); groups: 0 = unconditional, then one per when / per
    forall instance.  nums items: (kind, fluent key, rhs value evaluated in S)."""
    b = binding(act, args)
    adds, dels, nums = [], [], []

    def simple(g, effs, bb):
        for e in effs:
            if e[0] == "add":
                adds.append((g, (e[1][1],) + tuple(bb.get(a, a) for a in e[1][2])))
            elif e[0] == "del":
                dels.append((g, (e[1][1],) + tuple(bb.get(a, a) for a in e[1][2])))
            elif e[0] == "num":
                k = (e[2][1],) + tuple(bb.get(a, a) for a in e[2][2])
                if k not in S[1]:
                    raise Undefined(k)
                nums.append((g, (e[1], k, ev(e[3], S, bb))))

    g = 0
    simple(0, [e for e in act["eff"] if e[0] in ("add", "del", "num")], b)
    stats = {"when_true": 0, "when_false": 0, "forall_inst": 0, "forall_fired": 0}
    for e in act["eff"]:
        if e[0] == "when":
            g += 1
            if holds(e[1], S, b, D, objs):
                stats["when_true"] += 1
                simple(g, e[2], b)
            else:
                stats["when_false"] += 1
        elif e[0] == "forall":
            for o, ty in objs.items():
                if is_sub(D["types"], ty, e[2]):
                    g += 1
                    stats["forall_inst"] += 1
                    bb = {**b, e[1]: o}
                    if holds(e[3][1], S, bb, D, objs):
                        stats["forall_fired"] += 1
                        simple(g, e[3][2], bb)
    return adds, dels, nums, stats


def successor(S, act, args, D, objs):
    """-> (S', info).  Raises Inconsistent / Undefined."""
    adds, dels, nums, stats = firing(S, act, args, D, objs)
    for ga, a in adds:
        for gd, d in dels:
            if a == d and ga != gd:
                raise Inconsistent(("add/del", a))
    seen = set()
    for g, (kind, k, v) in nums:
        if k in seen:
            raise Inconsistent(("fluent twice", k))
        seen.add(k)
    facts = set(S[0])
    fl = dict(S[1])
    for g, d in dels:
        facts.discard(d)
    for g, a in adds:
        facts.add(a)
    for g, (kind, k, v) in nums:
        fl[k] = v if kind == "assign" else S[1][k] + v if kind == "increase" else S[1][k] - v
    groups = {g for g, _ in adds} | {g for g, _ in dels} | {g for g, _ in nums}
    # does some firing numeric rhs read a fluent that another firing effect writes?
    info = dict(stats, groups_fired=len(groups), n_adds=len(adds), n_dels=len(dels), n_nums=len(nums))
    return (frozenset(facts), fl), info


def reads_written(act, S, args, D, objs):
    """True when a firing numeric right-hand side or a when-condition reads a fluent/atom that a firing effect of
    ANOTHER group writes (the situation in which evaluation order matters)."""
    adds, dels, nums, _ = firing(S, act, args, D, objs)
    written = {k for _, (_, k, _) in nums}
    return len(written) > 0 and len({g for g, _ in nums} | {g for g, _ in adds} | {g for g, _ in dels}) > 1


def state_eq(A, B, tol=0.0):
    if A[0] != B[0]:
        return False
    if set(A[1]) != set(B[1]):
        return False
    return all(A[1][k] == B[1][k] or abs(A[1][k] - B[1][k]) <= tol for k in A[1])


def state_diff(A, B):
    """human-readable difference: (library, reference)"""
    out = []
    for a in sorted(A[0] - B[0]):
        out.append(f"atom {a} present, reference says absent")
    for a in sorted(B[0] - A[0]):
        out.append(f"atom {a} absent, reference says present")
    for k in sorted(set(A[1]) | set(B[1])):
        if k not in A[1]:
            out.append(f"fluent {k} missing")
        elif k not in B[1]:
            out.append(f"fluent {k} is extra (value {A[1][k]})")
        elif A[1][k] != B[1][k]:
            out.append(f"fluent {k} = {A[1][k]}, reference says {B[1][k]}")
    return "; ".join(out[:6])


def too_large(S, bound=1e12):
    """values beyond this are outside the generated numeric range (repeated squaring); callers stop extending plans"""
    return any(not (abs(v) <= bound) for v in S[1].values())


def init_state(P):
    return (frozenset(P["facts"]), dict(P["fluents"]))


def serialisable(S, calls, D, objs, max_orders=24):
    """calls: list of (act, args).  -> (ok, final state or None, reason).  ok iff every order is executable step by
    step and all orders reach the same state."""
    finals = []
    orders = list(itertools.permutations(range(len(calls))))[:max_orders]
    for order in orders:
        cur = S
        for i in order:
            act, args = calls[i]
            try:
                if not applicable(cur, act, args, D, objs):
                    return False, None, f"order {order}: member {i} not applicable"
                cur, _ = successor(cur, act, args, D, objs)
            except (Inconsistent, Undefined) as e:
                return False, None, f"order {order}: {type(e).__name__}"
        finals.append(cur)
    for f in finals[1:]:
        if not state_eq(f, finals[0]):
            return False, None, "orders reach different states"
    return True, finals[0] if finals else S, ""


# ------------------------------------------------------------------------------------ reading library text
def read_state_tree(tree):
    """tree: [':state'|':init', item...] as produced by an S-expression reader -> abstract state"""
    facts = set()
    fl = {}
    for x in tree[1:]:
        if x and x[0] == "=":
            k = tuple(x[1])
            if k in fl:
                raise ValueError(f"fluent {k} listed twice")
            fl[k] = float(x[2])
        else:
            t = tuple(x)
            facts.add(t)
    return (frozenset(facts), fl)


def read_state_text(txt):
    from . import sexpr
    tree = sexpr.read_one(txt)
    return read_state_tree(tree)


def dup_facts_in_state_text(txt):
    """ground atoms listed more than once in a serialized state (a set-valued state must not)"""
    from . import sexpr
    tree = sexpr.read_one(txt)
    seen, dup = set(), []
    for x in tree[1:]:
        if x and x[0] != "=":
            tt = tuple(x)
            if tt in seen:
                dup.append(tt)
            seen.add(tt)
    return dup
