"""Reference PDDL reader: S-expression tree -> the plain AST of gen/pddl.py.  Independent of the repository.

Supports the fragment of C01's quantifier; anything else raises Unsupported (the caller counts and skips)."""
from . import sexpr


class Unsupported(Exception):
    pass


CMP = ("<", "<=", "=", ">=", ">")
ARITH = ("+", "-", "*", "/")
ASSIGN = ("assign", "increase", "decrease")


def typed_list(items, default="object"):
    """['a','b','-','t','c'] -> [('a','t'),('b','t'),('c','object')]"""
    out, group = [], []
    i = 0
    while i < len(items):
        x = items[i]
        if isinstance(x, list):
            raise Unsupported("nested list in typed list")
        if x == "-":
            ty = items[i + 1]
            if isinstance(ty, list):
                raise Unsupported("either types")
            out += [(g, ty) for g in group]
            group = []
            i += 2
        else:
            group.append(x)
            i += 1
    out += [(g, default) for g in group]
    return out


def is_num(s):
    try:
        float(s)
        return True
    except (TypeError, ValueError):
        return False


def rd_expr(x, funcs):
    if isinstance(x, str):
        if is_num(x):
            return float(x)
        raise Unsupported(f"bare symbol in expression: {x}")
    if not x:
        raise Unsupported("empty expression")
    h = x[0]
    if h in ARITH:
        if len(x) != 3:
            raise Unsupported("n-ary arithmetic")
        return (h, rd_expr(x[1], funcs), rd_expr(x[2], funcs))
    if h in funcs:
        if any(isinstance(a, list) for a in x[1:]):
            raise Unsupported("nested function argument")
        if len(x) - 1 != len(funcs[h]):
            raise Unsupported("function arity")
        return ("fn", h, list(x[1:]))
    raise Unsupported(f"unknown function {h}")


def rd_atom(x, preds):
    if not isinstance(x, list) or not x or x[0] not in preds:
        raise Unsupported(f"not an atom: {x}")
    if any(isinstance(a, list) for a in x[1:]):
        raise Unsupported("nested atom argument")
    if len(x) - 1 != len(preds[x[0]]):
        raise Unsupported("predicate arity")
    return ("atom", x[0], list(x[1:]))


def rd_formula(x, preds, funcs):
    if not isinstance(x, list):
        raise Unsupported("symbol as formula")
    if not x:
        return ("and", [])
    h = x[0]
    if h in ("and", "or"):
        return (h, [rd_formula(y, preds, funcs) for y in x[1:]])
    if h == "not":
        if len(x) != 2:
            raise Unsupported("not arity")
        y = x[1]
        if isinstance(y, list) and y and y[0] == "=" and len(y) == 3 and isinstance(y[1], str) and not is_num(y[1]) \
                and isinstance(y[2], str) and not is_num(y[2]):
            return ("neq", y[1], y[2])
        if isinstance(y, list) and y and y[0] in preds:
            return ("not", rd_atom(y, preds))
        raise Unsupported("negation of a compound formula")
    if h == "=" and len(x) == 3 and isinstance(x[1], str) and isinstance(x[2], str) and not is_num(x[1]) \
            and not is_num(x[2]):
        return ("=", x[1], x[2])
    if h in CMP:
        if len(x) != 3:
            raise Unsupported("comparison arity")
        return ("cmp", h, rd_expr(x[1], funcs), rd_expr(x[2], funcs))
    if h == "forall":
        if len(x) != 3:
            raise Unsupported("forall arity")
        vs = typed_list(x[1])
        if len(vs) != 1:
            raise Unsupported("forall over several variables")
        return ("forall", vs[0][0], vs[0][1], rd_formula(x[2], preds, funcs))
    if h in preds:
        return rd_atom(x, preds)
    raise Unsupported(f"formula head {h}")


def rd_simple_effect(x, preds, funcs):
    if not isinstance(x, list) or not x:
        raise Unsupported("bad effect")
    h = x[0]
    if h == "not":
        return ("del", rd_atom(x[1], preds))
    if h in ASSIGN:
        if len(x) != 3:
            raise Unsupported("assignment arity")
        fn = rd_expr(x[1], funcs)
        if not (isinstance(fn, tuple) and fn[0] == "fn"):
            raise Unsupported("assignment target")
        return ("num", h, fn, rd_expr(x[2], funcs))
    if h in preds:
        return ("add", rd_atom(x, preds))
    raise Unsupported(f"effect head {h}")


def rd_simple_effects(x, preds, funcs):
    if isinstance(x, list) and x and x[0] == "and":
        return [rd_simple_effect(y, preds, funcs) for y in x[1:]]
    return [rd_simple_effect(x, preds, funcs)]


def rd_effects(x, preds, funcs):
    if not isinstance(x, list):
        raise Unsupported("effect")
    if not x:
        return []
    items = x[1:] if x[0] == "and" else [x]
    out = []
    for y in items:
        if not isinstance(y, list) or not y:
            raise Unsupported("effect item")
        if y[0] == "when":
            if len(y) != 3:
                raise Unsupported("when arity")
            c = rd_formula(y[1], preds, funcs)
            if c[0] != "and":
                c = ("and", [c])
            out.append(("when", c, rd_simple_effects(y[2], preds, funcs)))
        elif y[0] == "forall":
            if len(y) != 3:
                raise Unsupported("forall arity")
            vs = typed_list(y[1])
            if len(vs) != 1:
                raise Unsupported("forall over several variables")
            body = y[2]
            if not (isinstance(body, list) and body and body[0] == "when" and len(body) == 3):
                raise Unsupported("forall effect without when")
            c = rd_formula(body[1], preds, funcs)
            if c[0] != "and":
                c = ("and", [c])
            out.append(("forall", vs[0][0], vs[0][1], ("when", c, rd_simple_effects(body[2], preds, funcs))))
        else:
            out.append(rd_simple_effect(y, preds, funcs))
    return out


def read_domain_tree(tree):
    if not tree or tree[0] != "define":
        raise Unsupported("no define")
    D = {"name": None, "types": {}, "constants": {}, "predicates": {}, "functions": {}, "actions": {},
         "requirements": []}
    pending_actions = []
    for sec in tree[1:]:
        if not isinstance(sec, list) or not sec:
            raise Unsupported("bad section")
        h = sec[0]
        if h == "domain":
            D["name"] = sec[1]
        elif h == ":requirements":
            D["requirements"] = list(sec[1:])
        elif h == ":types":
            for n, p in typed_list(sec[1:]):
                D["types"][n] = p
        elif h == ":constants":
            for n, p in typed_list(sec[1:]):
                D["constants"][n] = p
        elif h == ":predicates":
            for p in sec[1:]:
                if p and p[0] == ":private":
                    # MA-PDDL: (:private (pred ...) (pred ...)) - the private predicates are ordinary predicates here
                    for q in p[1:]:
                        if not isinstance(q, list):
                            raise Unsupported("private predicate group with an agent variable")
                        D["predicates"][q[0]] = [ty for _, ty in typed_list(q[1:])]
                    continue
                D["predicates"][p[0]] = [ty for _, ty in typed_list(p[1:])]
        elif h == ":functions":
            items = sec[1:]
            if any(x == "-" for x in items):
                raise Unsupported("typed functions")
            for p in items:
                D["functions"][p[0]] = [ty for _, ty in typed_list(p[1:])]
        elif h == ":action":
            pending_actions.append(sec)
        else:
            raise Unsupported(f"section {h}")
    for n, p in list(D["types"].items()):
        if p != "object" and p not in D["types"]:
            D["types"][p] = "object"
    D["types"].pop("object", None)
    for sec in pending_actions:
        name = sec[1]
        body = dict(zip(sec[2::2], sec[3::2]))
        params = typed_list(body.get(":parameters", []))
        pre = rd_formula(body.get(":precondition", []), D["predicates"], D["functions"])
        single = pre[0] != "and"
        if single:
            pre = ("and", [pre])
        eff = rd_effects(body.get(":effect", []), D["predicates"], D["functions"])
        D["actions"][name] = {"params": [(a, b) for a, b in params], "pre": pre, "eff": eff}
        if single:
            D["actions"][name]["pre_single_literal"] = True  # source form ':precondition (p ?x)' without 'and'
    return D


def read_domain_text(text):
    return read_domain_tree(sexpr.read_one(text))


def read_problem_tree(tree, D):
    P = {"name": None, "domain": None, "objects": {}, "facts": set(), "fluents": {}, "goal": [], "goal_num": []}
    for sec in tree[1:]:
        h = sec[0]
        if h == "problem":
            P["name"] = sec[1]
        elif h == ":domain":
            P["domain"] = sec[1]
        elif h == ":objects":
            items = []
            for x in sec[1:]:
                if isinstance(x, list):
                    if not x or x[0] != ":private":
                        raise Unsupported("nested list in :objects")
                    for n, p in typed_list(x[1:]):
                        P["objects"][n] = p
                else:
                    items.append(x)
            for n, p in typed_list(items):
                P["objects"][n] = p
        elif h == ":init":
            for x in sec[1:]:
                if x[0] == "=":
                    P["fluents"][tuple(x[1])] = float(x[2])
                else:
                    P["facts"].add(tuple(x))
        elif h == ":goal":
            g = sec[1]
            items = g[1:] if g and g[0] == "and" else [g]
            for x in items:
                if not x:
                    continue
                if x[0] in CMP:
                    P["goal_num"].append(("cmp", x[0], rd_expr(x[1], D["functions"]), rd_expr(x[2], D["functions"])))
                else:
                    P["goal"].append(tuple(x))
        elif h == ":metric":
            pass
        else:
            raise Unsupported(f"problem section {h}")
    return P


def read_problem_text(text, D):
    return read_problem_tree(sexpr.read_one(text), D)


def read_trajectory_tree(tree):
    """-> (states [abstract], steps [list of calls; a call = (name, args)])  for single and joint trajectories"""
    from .interp import read_state_tree
    states, steps = [], []
    for item in tree:
        h = item[0]
        if h in (":init", ":state"):
            states.append(read_state_tree(item))
        elif h == "operator:":
            c = item[1]
            steps.append([(c[0], tuple(c[1:]))])
        elif h == "operators:":
            steps.append([(c[0], tuple(c[1:])) for c in item[1:]])
        else:
            raise Unsupported(f"trajectory item {h}")
    return states, steps
