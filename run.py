#!/venv/bin/python
"""Entry point of the verification machinery.

  run.py check <ID> [--tier quick|thorough] [--runs N] [--workers W]
  run.py replay <file>
  run.py selftest determinism <ID> [--n N]
  run.py one <ID> <seed> [--tier T]        (debug: run one seed in-process and print the result)

Environment: VERIF_SEED (int, default 0), VERIF_TIER, VERIF_REPO (tree under test, default /repo),
VERIF_WORKERS (default 16), VERIF_BUDGET_S (soft dispatch deadline).
Exit codes: 0 property held on everything explored; 1 violation (line "VIOLATION property=<id> replay=<path>");
2 harness error / dead worker; 3 wall-clock timeout of a worker.  Never 0 after a harness error.
"""
import argparse
import json
import os
import pickle
import subprocess
import sys
import time

VERIF = os.path.dirname(os.path.abspath(__file__))
if VERIF not in sys.path:
    sys.path.insert(0, VERIF)

NGROUPS = 4
SEED_STRIDE = 1_000_003


def hashseed_for(base, group):
    return str((base * 7919 + group * 104729 + 12345) % 4294967295)


ENV_SWITCHES = ("EPSILON", "NUMERIC_PRECISION", "PYTHONOPTIMIZE", "LC_ALL", "PYTHONUTF8", "PYTHONCOERCECLOCALE")


def group_env(g, ngroups):
    """environment configuration of a worker group: the last but one runs under python -O; the last group runs with the library's documented environment
    switches set explicitly to their default values (they are read at import time, so only a fresh interpreter sees
    them); behaviour must not depend on whether they are set"""
    if ngroups > 1 and g == ngroups - 1:
        # the printing-precision switch at a legal non-default value, the tolerance switch unset: the comparison tolerance
        # and every value the library stores must not depend on how many digits are printed (the dyadic constants of the
        # generated domains print exactly with 3 decimals)
        return {"NUMERIC_PRECISION": "3"}
    if ngroups > 3 and g == 1:
        # the documented tolerance switch at a legal non-default value: exact comparisons (the reference interpreter
        # reads the same variable)
        # ... and a locale whose encoding is not UTF-8 (POSIX locale with Python's UTF-8 mode and locale coercion off): text
        # files must be read and written the same way whatever the locale is
        return {"EPSILON": "0", "LC_ALL": "C", "PYTHONUTF8": "0", "PYTHONCOERCECLOCALE": "0"}
    if ngroups > 2 and g == ngroups - 2:
        # the interpreter's optimisation switch (python -O): assert statements are compiled away - a library whose
        # behaviour lives inside an assert changes; the harness itself uses no assert for anything it decides
        return {"PYTHONOPTIMIZE": "1"}
    return {}


def repo_head():
    repo = os.environ.get("VERIF_REPO", "/repo")
    try:
        return subprocess.run(["git", "-C", repo, "rev-parse", "HEAD"], capture_output=True, text=True).stdout.strip()
    except Exception:
        return "?"


def repo_dirty():
    repo = os.environ.get("VERIF_REPO", "/repo")
    try:
        return bool(subprocess.run(["git", "-C", repo, "status", "--porcelain", "--", "pddl_plus_parser"],
                                   capture_output=True, text=True).stdout.strip())
    except Exception:
        return None


# ------------------------------------------------------------------------------------------------ group worker
def cmd_group(a):
    from sim import engine
    engine.setup_process()
    prop = engine.load_prop(a.id)
    idx = [i for i in range(a.runs) if i % a.ngroups == a.group]
    seeds = [a.base * SEED_STRIDE + i for i in idx]
    cs = a.chunk
    chunks = [seeds[i:i + cs] for i in range(0, len(seeds), cs)]
    agg = engine.run_chunks(a.id, chunks, a.tier, a.workers, a.deadline, collect_digests=a.digests)
    # shrink distinct violations (this process has the right PYTHONHASHSEED)
    seen = {}
    for v in agg["violations"]:
        key = (v["kind"], v["site"], repr(sorted((v.get("features") or {}).items())))
        seen.setdefault(key, v)
    shrunk = []
    known = load_known()
    items = sorted(seen.items(), key=lambda kv: 1 if match_known(known, prop.ID, kv[1]) else 0)
    n_unknown = sum(1 for _, v in items if not match_known(known, prop.ID, v))
    for key, v in items[:max(4, min(n_unknown, 6) + 2)]:
        t0 = time.time()
        is_known = bool(match_known(known, prop.ID, v))
        streams, used = engine.shrink(prop, v["seed"], a.tier, v["streams"], v["kind"],
                                      budget=min(a.shrink_budget, 40) if is_known else a.shrink_budget,
                                      features=v.get("features"))
        r = engine.execute(prop, v["seed"], a.tier, replay=streams, want_sample=True)
        if not (r["outcome"] == "violation" and r["kind"] == v["kind"] and (r.get("features") or {}) == (v.get("features") or {})):
            r = v
            streams = v["streams"]
        r = dict(r)
        r["streams"] = streams
        r["shrink_execs"] = used
        r["shrink_s"] = round(time.time() - t0, 2)
        r["pythonhashseed"] = os.environ.get("PYTHONHASHSEED")
        r["env"] = {k: os.environ[k] for k in ENV_SWITCHES if k in os.environ}
        r["count_in_group"] = agg["probes"].get("violations:" + v["kind"], 1)
        shrunk.append(r)
    agg["shrunk"] = shrunk
    agg["pythonhashseed"] = os.environ.get("PYTHONHASHSEED")
    from sim import fs
    with fs._real_open(a.out, "wb") as f:
        pickle.dump(agg, f)
    fs.cleanup()
    return 0


# ------------------------------------------------------------------------------------------------ check
def load_known():
    p = os.path.join(VERIF, "known_findings.json")
    if not os.path.exists(p):
        return {"findings": [], "fixed": []}
    with open(p) as f:
        return json.load(f)


def match_known(known, prop_id, v):
    for k in known.get("findings", []):
        if k["property"] != prop_id or k["kind"] != v["kind"]:
            continue
        if k.get("site") and k["site"] != v.get("site"):
            continue
        feats = v.get("features") or {}
        if all(feats.get(fk) == fv for fk, fv in (k.get("features") or {}).items()):
            return k
    return None


def cmd_check(a):
    from sim import engine
    t0 = time.time()
    tier = a.tier or os.environ.get("VERIF_TIER") or "quick"
    base = int(os.environ.get("VERIF_SEED", "0") or 0)
    workers = int(a.workers or os.environ.get("VERIF_WORKERS", "16"))
    sys.path.insert(0, VERIF)
    import importlib
    prop = importlib.import_module(f"props.{a.id.lower()}")
    runs = a.runs or prop.RUNS[tier]
    budget = float(os.environ.get("VERIF_BUDGET_S", prop.BUDGET_S[tier]))
    deadline = t0 + budget
    ngroups = min(NGROUPS, max(1, workers))
    wpg = max(1, workers // ngroups)
    tmp = f"/dev/shm/verif-check-{os.getpid()}"
    os.makedirs(tmp, exist_ok=True)
    procs = []
    for g in range(ngroups):
        env = dict(os.environ)
        env["PYTHONHASHSEED"] = hashseed_for(base, g)
        for k, v in group_env(g, ngroups).items():
            env[k] = v
        out = f"{tmp}/g{g}.pkl"
        cmd = [sys.executable, os.path.join(VERIF, "run.py"), "_group", a.id, "--tier", tier, "--group", str(g),
               "--ngroups", str(ngroups), "--workers", str(wpg), "--base", str(base), "--runs", str(runs),
               "--deadline", str(deadline), "--out", out, "--chunk", str(prop.CHUNK),
               "--shrink-budget", str(getattr(prop, "SHRINK_BUDGET", 300))]
        if a.digests:
            cmd.append("--digests")
        procs.append((g, out, subprocess.Popen(cmd, env=env, cwd=VERIF)))
    agg = engine.empty_agg()
    shrunk = []
    bad_groups = 0
    hashseeds = []
    for g, out, p in procs:
        rc = p.wait()
        if rc != 0 or not os.path.exists(out):
            bad_groups += 1
            continue
        with open(out, "rb") as f:
            r = pickle.load(f)
        os.unlink(out)
        engine.merge(agg, r)
        agg["timeouts"] += r.get("timeouts", 0)
        agg["dead_children"] += r.get("dead_children", 0)
        shrunk.extend(r["shrunk"])
        hashseeds.append(r["pythonhashseed"])
    try:
        os.rmdir(tmp)
    except OSError:
        pass
    wall = time.time() - t0

    known = load_known()
    os.makedirs(os.path.join(VERIF, "replays"), exist_ok=True)
    n_viol = 0
    lines = []
    reported = set()
    known_printed = set()
    for v in shrunk:
        key = (v["kind"], v.get("site"), repr(sorted((v.get("features") or {}).items())))
        if key in reported:
            continue
        reported.add(key)
        k = match_known(known, prop.ID, v)
        sub = "known" if k else ""
        d = os.path.join(VERIF, "replays", sub)
        os.makedirs(d, exist_ok=True)
        path = os.path.join(d, f"{prop.ID}-{v['seed']}.json")
        rep = {"property": prop.ID, "seed": v["seed"], "pythonhashseed": v["pythonhashseed"], "env": v.get("env") or {},
               "tier": tier,
               "streams": v["streams"],
               "violation": {"kind": v["kind"], "site": v.get("site"), "detail": v.get("detail"),
                             "features": v.get("features")},
               "cfg": engine.jsonable(v.get("cfg")), "case": engine.jsonable(v.get("sample")),
               "trace": v.get("trace"), "history_digest": v.get("digest"), "repo_head": repo_head(),
               "shrink_execs": v.get("shrink_execs")}
        with open(path, "w") as f:
            json.dump(rep, f, indent=1)
        # confirm in a fresh interpreter
        rc = subprocess.run([sys.executable, os.path.join(VERIF, "run.py"), "replay", path, "--quiet"],
                            cwd=VERIF).returncode
        confirmed = rc == 1
        if k:
            kid = known["findings"].index(k)
            if kid not in known_printed:
                known_printed.add(kid)
                lines.append(f"KNOWN-FINDING: property={prop.ID} {k['what']} [kind={v['kind']} replay={path}]")
        elif confirmed:
            n_viol += 1
            lines.append(f"VIOLATION property={prop.ID} replay={path}")
            lines.append(f"  kind={v['kind']} site={v.get('site')} detail={v.get('detail')}")
        else:
            # a violation that does not replay in a fresh interpreter is a defect of the machinery, not a verdict
            agg["harness_errors"].append({"seed": v["seed"], "detail": f"violation {v['kind']} did not replay"})
            lines.append(f"HARNESS-ERROR property={prop.ID} violation {v['kind']} seed={v['seed']} did not replay")

    harness_bad = bool(agg["harness_errors"]) or bad_groups or agg["timeouts"] or agg["dead_children"]
    # evidence
    fault_kinds = {k: v for k, v in agg["faults"].items()}
    cov = {
        "evaluations": agg["runs"],
        "distinct_nontrivial": len(agg["nt_digests"]),
        "rule": prop.RULE,
        "samples": engine.jsonable(agg["samples"][:4]) or [{"note": "no sample recorded"}],
        "runs_ok": agg["ok"], "runs_skipped_outside_quantifier": agg["skip"],
        "runs_nontrivial": agg["nontrivial"],
        "distinct_histories": len(agg["all_digests"]),
        "runs_per_hour": int(agg["runs"] / wall * 3600) if wall > 0 else 0,
        "seeds": {"base": base, "first": base * SEED_STRIDE, "count_planned": runs, "count_run": agg["runs"]},
        "logical_steps": agg["steps"],
        "simulated_time": "not applicable: the library has no timers or deadlines; progress is counted in logical "
                          "steps (history events)",
        "fault_kinds_fired": fault_kinds,
        "distinct_by_measure": {k: len(v) for k, v in sorted((agg.get("measures") or {}).items())},
        "probes": dict(agg["probes"]),
        "profiles": dict(agg["profiles"]),
        "pythonhashseeds": hashseeds,
        "group_environments": [group_env(g, ngroups) for g in range(ngroups)],
        "workers": workers,
        "real_vs_stub": {"real": list(prop.REAL_VS_STUB.get("real", [])),
                         "stub": list(prop.REAL_VS_STUB.get("stub", [])) + [
                             "directory listings under the simulated root (glob / listdir / scandir: permuted)",
                             "file clock (in half of the runs every file written under the simulated root keeps one mtime)",
                             "interpreter environment per worker group (plain, EPSILON=0 + C locale without UTF-8 mode, python -O, NUMERIC_PRECISION=3)",
                             "application logging configuration (disabled / DEBUG with a NullHandler)"]},
        "repo_head": repo_head(), "repo_dirty": repo_dirty(),
        "known_findings_hit": [l for l in lines if l.startswith("KNOWN-FINDING")],
        "harness_errors": len(agg["harness_errors"]), "worker_timeouts": agg["timeouts"],
        "dead_workers": agg["dead_children"] + bad_groups,
    }
    ev = {"property_id": prop.ID, "tier": tier, "seed": base, "level": "exploration", "coverage": cov,
          "assumptions": prop.ASSUMPTIONS, "wall_s": round(wall, 2), "violations": n_viol}
    # evidence describes a run against /repo itself; runs against a scratch tree (sensitivity tests) write elsewhere
    evdir = os.path.join(VERIF, "evidence")
    if os.path.realpath(os.environ.get("VERIF_REPO", "/repo")) != "/repo":
        evdir = "/dev/shm/verif-evidence-scratch"
    os.makedirs(evdir, exist_ok=True)
    with open(os.path.join(evdir, f"{prop.ID}.json"), "w") as f:
        json.dump(ev, f, indent=1, sort_keys=True)

    for l in lines:
        print(l)
    print(f"{prop.ID} tier={tier} seed={base} runs={agg['runs']}/{runs} nontrivial={agg['nontrivial']} "
          f"distinct_nt={len(agg['nt_digests'])} violations={n_viol} wall={wall:.1f}s "
          f"rate={cov['runs_per_hour']}/h faults={sum(fault_kinds.values())}")
    if agg["harness_errors"]:
        print("HARNESS-ERROR (first):", agg["harness_errors"][0].get("seed"), file=sys.stderr)
        print(agg["harness_errors"][0].get("detail"), file=sys.stderr)
    if n_viol:
        return 1
    if agg["timeouts"]:
        print(f"HARNESS-TIMEOUT: {agg['timeouts']} worker(s) killed", file=sys.stderr)
        return 3
    if harness_bad:
        print(f"HARNESS-ERROR: errors={len(agg['harness_errors'])} bad_groups={bad_groups} "
              f"dead={agg['dead_children']}", file=sys.stderr)
        return 2
    if agg["runs"] == 0:
        print("HARNESS-ERROR: nothing ran", file=sys.stderr)
        return 2
    return 0


# ------------------------------------------------------------------------------------------------ replay
def cmd_replay(a):
    with open(a.file) as f:
        rep = json.load(f)
    want = rep.get("pythonhashseed")
    want_env = rep.get("env") or {}
    have_env = {k: os.environ[k] for k in ENV_SWITCHES if k in os.environ}
    if (want is not None and os.environ.get("PYTHONHASHSEED") != str(want)) or have_env != want_env:
        env = {k: v for k, v in os.environ.items() if k not in ENV_SWITCHES}
        env.update(want_env)
        if want is not None:
            env["PYTHONHASHSEED"] = str(want)
        os.execve(sys.executable, [sys.executable] + sys.argv, env)
    from sim import engine, fs
    engine.setup_process()
    prop = engine.load_prop(rep["property"])
    r = engine.execute(prop, rep["seed"], rep.get("tier", "quick"), replay=rep["streams"], want_sample=True)
    fs.cleanup()
    same = r["outcome"] == "violation" and r["kind"] == rep["violation"]["kind"]
    if same:
        if not a.quiet:
            print(f"VIOLATION property={rep['property']} replay={os.path.abspath(a.file)}")
            print(f"  kind={r['kind']} site={r.get('site')} detail={r.get('detail')}")
            for t in r.get("trace") or []:
                print("   |", t)
        return 1
    if not a.quiet:
        print(f"not reproduced: outcome={r['outcome']} kind={r.get('kind')} detail={r.get('detail')}")
    return 2 if r["outcome"] == "harness-error" else 0


def cmd_one(a):
    from sim import engine, fs
    engine.setup_process()
    prop = engine.load_prop(a.id)
    r = engine.execute(prop, a.seed, a.tier or "quick", want_sample=True)
    fs.cleanup()
    r.pop("streams", None)
    print(json.dumps(engine.jsonable(r), indent=1))
    return 0


# ------------------------------------------------------------------------------------------------ selftest
def cmd_selftest(a):
    """determinism: the same seeds, executed (1) in chunked workers with 16 workers, (2) with 1 worker and another
    chunking, under the same PYTHONHASHSEED but a different process layout, must give identical history digests."""
    import importlib
    prop = importlib.import_module(f"props.{a.id.lower()}")
    n = a.n
    base = int(os.environ.get("VERIF_SEED", "0") or 0)
    results = []
    for (workers, chunk, junk) in ((4, 50, 0), (1, 7, 1), (3, 33, 2)):
        env = dict(os.environ)
        env["PYTHONHASHSEED"] = hashseed_for(base, 0)
        env["VERIF_JUNK"] = str(junk)
        out = f"/dev/shm/verif-selftest-{os.getpid()}-{workers}.pkl"
        cmd = [sys.executable, os.path.join(VERIF, "run.py"), "_group", a.id, "--tier", "quick", "--group", "0",
               "--ngroups", "1", "--workers", str(workers), "--base", str(base), "--runs", str(n),
               "--deadline", str(time.time() + 3600), "--out", out, "--chunk", str(chunk), "--digests",
               "--shrink-budget", "0"]
        rc = subprocess.run(cmd, env=env, cwd=VERIF).returncode
        if rc != 0:
            print("selftest: group failed", rc)
            return 2
        with open(out, "rb") as f:
            r = pickle.load(f)
        os.unlink(out)
        results.append(dict((s, (d, o, k)) for s, d, o, k in r["digests"]))
    ref = results[0]
    bad = 0
    for other in results[1:]:
        for s, v in ref.items():
            if other.get(s) != v:
                bad += 1
                if bad <= 5:
                    print("DIVERGENCE seed", s, v, other.get(s))
    # informational: how many runs change their history when only the interpreter's string hash seed changes
    env = dict(os.environ)
    env["PYTHONHASHSEED"] = hashseed_for(base, 1)
    out = f"/dev/shm/verif-selftest-{os.getpid()}-hs.pkl"
    cmd = [sys.executable, os.path.join(VERIF, "run.py"), "_group", a.id, "--tier", "quick", "--group", "0",
           "--ngroups", "1", "--workers", "4", "--base", str(base), "--runs", str(n),
           "--deadline", str(time.time() + 3600), "--out", out, "--chunk", "50", "--digests", "--shrink-budget", "0"]
    hs_diff = None
    if subprocess.run(cmd, env=env, cwd=VERIF).returncode == 0:
        with open(out, "rb") as f:
            r = pickle.load(f)
        os.unlink(out)
        other = dict((s, (d, o, k)) for s, d, o, k in r["digests"])
        hs_diff = sum(1 for s, v in ref.items() if other.get(s) != v)
        outcome_diff = sum(1 for s, v in ref.items() if other.get(s, (0, 0, 0))[1:] != v[1:])
        print(f"  (informational) under another PYTHONHASHSEED {hs_diff} of {len(ref)} histories differ, "
              f"{outcome_diff} outcomes differ")
    print(f"selftest determinism {a.id}: seeds={len(ref)} layouts={len(results)} divergences={bad}")
    return 0 if bad == 0 and len(ref) == n else 2


def main():
    ap = argparse.ArgumentParser()
    sub = ap.add_subparsers(dest="cmd", required=True)
    c = sub.add_parser("check")
    c.add_argument("id")
    c.add_argument("--tier")
    c.add_argument("--runs", type=int)
    c.add_argument("--workers", type=int)
    c.add_argument("--digests", action="store_true")
    g = sub.add_parser("_group")
    g.add_argument("id")
    g.add_argument("--tier")
    for n in ("group", "ngroups", "workers", "base", "runs", "chunk", "shrink-budget"):
        g.add_argument(f"--{n}", type=int)
    g.add_argument("--deadline", type=float)
    g.add_argument("--out")
    g.add_argument("--digests", action="store_true")
    r = sub.add_parser("replay")
    r.add_argument("file")
    r.add_argument("--quiet", action="store_true")
    o = sub.add_parser("one")
    o.add_argument("id")
    o.add_argument("seed", type=int)
    o.add_argument("--tier")
    s = sub.add_parser("selftest")
    s.add_argument("what", choices=["determinism"])
    s.add_argument("id")
    s.add_argument("--n", type=int, default=400)
    a = ap.parse_args()
    if a.cmd == "_group":
        a.shrink_budget = getattr(a, "shrink_budget")
    return {"check": cmd_check, "_group": cmd_group, "replay": cmd_replay, "one": cmd_one,
            "selftest": cmd_selftest}[a.cmd](a)


if __name__ == "__main__":
    sys.exit(main())
