#!/usr/bin/env python3
"""prints the table of DESIGN.md section 11.3 from evidence/*.json (quick tier) and thorough_summary.txt"""
import glob, json, os, re
BASE = os.path.dirname(os.path.dirname(os.path.abspath(__file__)))
th = {}
for l in open(os.path.join(BASE, "thorough_summary.txt")):
    m = re.match(r"(C\d+) tier=thorough seed=\d+ runs=(\d+)/(\d+) .* wall=([\d.]+)s rate=(\d+)/h", l)
    if m:
        th[m.group(1)] = (int(m.group(2)), float(m.group(4)), int(m.group(5)))
print("| check | quick: runs | wall | runs / hour | fault events | thorough: runs | wall | runs / hour |")
print("|---|---|---|---|---|---|---|---|")
for f in sorted(glob.glob(os.path.join(BASE, "evidence", "C*.json"))):
    e = json.load(open(f))
    c = e["coverage"]
    i = e["property_id"]
    t = th.get(i, (0, 0, 0))
    print(f"| {i} | {c['seeds']['count_run']:,} | {e['wall_s']:.0f} s | {c['runs_per_hour'] / 1e6:.1f} M | "
          f"{sum(c['fault_kinds_fired'].values()):,} | {t[0]:,} | {t[1]:.0f} s | {t[2] / 1e6:.1f} M |")
