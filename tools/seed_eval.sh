#!/bin/bash
# usage: seed_eval.sh <seedout-dir> <PROP> <name> [runs]
# Confirms a seeded change (patch applies, tests still green, demo fails with / passes without), runs the property's
# check against it in a scratch worktree, and files it under /verif/seeded/<name>/.
set -u
SRC=$1; PROP=$2; NAME=$3; RUNS=${4:-0}
WT=/dev/shm/seed-$$
git -C /repo worktree add -q --detach "$WT" HEAD || exit 9
trap 'git -C /repo worktree remove --force "$WT" >/dev/null 2>&1; rm -rf "$WT"' EXIT
git -C "$WT" apply "$SRC/patch.diff" || { echo "PATCH DOES NOT APPLY"; exit 9; }
T=$(/verif/tools/run_tests.sh "$WT")
echo "$T" | sed 's/^/  tests: /'
PIN_OK=$(echo "$T" | grep -c "PINNED 34 failed, 63 passed, 176 errors")
WIDE_FAIL=$(echo "$T" | grep WIDER | grep -c failed)
REPO_UNDER_TEST="$WT" timeout 300 /venv/bin/python "$SRC/demo.py" > /tmp/demo_with.$$ 2>&1; D1=$?
REPO_UNDER_TEST=/repo timeout 300 /venv/bin/python "$SRC/demo.py" > /tmp/demo_without.$$ 2>&1; D0=$?
echo "  demo with change: exit=$D1 ; without: exit=$D0 ; pinned_ok=$PIN_OK wider_failures=$WIDE_FAIL"
cd /verif
if [ "$RUNS" != 0 ]; then R="--runs $RUNS"; else R=""; fi
OUT=$(VERIF_REPO="$WT" timeout 1500 /venv/bin/python run.py check "$PROP" $R 2>&1); RC=$?
echo "$OUT" | grep -E "^(VIOLATION|  kind=|C[0-9]+ tier|HARNESS)" | cut -c1-300 | head -8
echo "  check exit=$RC"
mkdir -p /verif/seeded/$NAME
cp "$SRC/patch.diff" "$SRC/demo.py" /verif/seeded/$NAME/
KIND=$(echo "$OUT" | grep -m1 "^  kind=" | sed 's/^  kind=\([^ ]*\).*/\1/')
/venv/bin/python - "$SRC" "$NAME" "$PROP" "$PIN_OK" "$WIDE_FAIL" "$D1" "$D0" "$RC" "$KIND" "$RUNS" <<'PY'
import json,sys
src,name,prop,pin,wide,d1,d0,rc,kind,runs=sys.argv[1:]
try: m=json.load(open(f"{src}/meta.json"))
except Exception: m={}
m.update({"property":prop,"confirmed":{"patch_applies_to_repo_head":True,"pinned_63_pass":pin=="1","wider_suite_failures":int(wide),
  "demo_exit_with_change":int(d1),"demo_exit_without_change":int(d0)},
  "what_i_ran":f"tools/seed_eval.sh: patch applied in a scratch worktree of /repo HEAD; tools/run_tests.sh; demo.py on both trees; VERIF_REPO=<worktree> run.py check {prop}" + (f" --runs {runs}" if runs!="0" else " (quick tier)"),
  "check_result":{"exit":int(rc),"detected":rc=="1","first_kind":kind or None}})
json.dump(m,open(f"/verif/seeded/{name}/meta.json","w"),indent=1)
print("  filed under /verif/seeded/"+name, "DETECTED" if rc=="1" else "MISSED" if rc=="0" else f"check exit {rc}")
PY
rm -f /tmp/demo_with.$$ /tmp/demo_without.$$
