#!/bin/bash
# usage: run_tests.sh <repo-dir>   -- runs the pinned suite (63) and the wider suite (273, per test directory)
# prints "PINNED passed=N failed=M" and "WIDER passed=N failed=M"; exit 0 iff pinned==63 passed & wider has no failures
R=${1:-/repo}
cd "$R" || exit 2
P=$(PYTHONPATH="$R" /venv/bin/python -m pytest -q -p no:cacheprovider --timeout=900 --continue-on-collection-errors -o log_cli=false 2>&1 | tail -1)
echo "PINNED $P"
WP=0; WF=0
for d in exporters_tests lisp_parsers_tests models_tests multi_agent_tests; do
  out=$(cd "$R/tests/$d" && PYTHONPATH="$R" /venv/bin/python -m pytest -q -p no:cacheprovider -c /dev/null --rootdir="$R" . 2>&1 | tail -1)
  echo "WIDER $d: $out"
done
