#!/venv/bin/python
"""Regenerates /verif/MANIFEST.json from the property modules that exist under props/ (keeps it valid at all times)."""
import importlib
import json
import os
import sys

VERIF = os.path.dirname(os.path.dirname(os.path.abspath(__file__)))
sys.path.insert(0, VERIF)

NA = {
    "C01": "pure function of the domain text (one readlines() call is the only stream contact); no schedule, history or fault in statement or quantifier. History leakage that could change a parse is decided under C07/C17, torn files under C11.",
    "C02": "applicability is a pure function of (schema, arguments, state); no schedule/fault in the statement. It is exercised (not claimed) inside C04's refusal clause under every hash schedule.",
    "C05": "the parsed Problem is a pure function of (domain, text); quantifier is inputs only.",
    "C06": "'any order' is the order of declarations in the input text, not a run-time schedule; pure function of the :types section.",
    "C09": "round trip of a value through two pure functions; quantifier is inputs only (the durable-export scenario is covered for the exporters whose properties name schedules or histories: C08, C10, C17).",
    "C12": "arithmetic and tolerance are pure functions of numbers; EPSILON / NUMERIC_PRECISION are import-time configuration, not faults or schedules.",
    "C13": "symbolic simplification is a pure function of the expression text; equivalence is algebra, not scheduling.",
    "C18": "renaming is a pure function of (schema, map); no history, schedule or fault.",
    "C19": "log -> plan is a regular-expression function of file content; the statement has no crash / partial-log clause to hold it to.",
    "C20": "grounding is a pure function of (schema, arguments).",
}
ORDER = ["C03", "C04", "C07", "C08", "C10", "C11", "C14", "C15", "C16", "C17"]

checks = []
for pid in ORDER:
    try:
        m = importlib.import_module(f"props.{pid.lower()}")
    except ModuleNotFoundError:
        continue
    checks.append({
        "property_id": pid,
        "quick_cmd": f"timeout 900 /venv/bin/python run.py check {pid} --tier quick",
        "thorough_cmd": f"timeout 3000 /venv/bin/python run.py check {pid} --tier thorough",
        "evidence_file": f"/verif/evidence/{pid}.json",
        "replay_cmd_template": "/venv/bin/python run.py replay {path}",
        "engine": "detsim",
        "level_claimed": {"category": "exploration", "text": m.LEVEL_TEXT, "design_ref": m.DESIGN_REF},
        "level_note": m.LEVEL_NOTE,
        "technique": m.TECHNIQUE,
    })

man = {
    "version": 1,
    "setup_cmd": "/venv/bin/python -m compileall -q /verif/sim /verif/ref /verif/gen /verif/props /verif/run.py && /venv/bin/python /verif/run.py one C11 1 > /dev/null",
    "hooks": {
        "guard": "PDDL_PLUS_PARSER_VERIF",
        "enable": "none needed: every seam (class __hash__, builtins.open / io.open / os.open, pathlib.Path.glob / os.listdir / os.scandir, file mtime, sys.settrace, interpreter environment of the worker groups) is reachable from outside the repository; checks import the package from VERIF_REPO (default /repo)",
        "baseline_off_cmd": "cd /repo && /venv/bin/python -m pytest -ra -q -p no:cacheprovider --timeout=900 --continue-on-collection-errors",
        "source_commits": [],
        "add_only": True,
    },
    "engines": [{
        "name": "detsim", "path": "/verif/run.py",
        "serves_properties": [c["property_id"] for c in checks],
        "kind_free_text": "deterministic simulation with fault injection: one integer -> choice tape (named streams) -> hash-schedule seam, file-tree seam (torn/failed/crashed writes, read errors, directory order, a file clock that does not advance), baton-passing pre-emptive thread scheduler with cancellation, worker groups with different interpreter environments; reference interpreter as oracle; seeded search over schedules/faults, tape shrinking, replay files",
    }],
    "checks": checks,
    "notes": "See DESIGN.md. Known findings: known_findings.json (never written at run time). Replays: /verif/replays/.",
    "not_applicable": [{"property_id": k, "reason": v} for k, v in NA.items()],
}
with open(os.path.join(VERIF, "MANIFEST.json"), "w") as f:
    json.dump(man, f, indent=1)
print("claimed:", [c["property_id"] for c in checks])
