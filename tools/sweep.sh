#!/bin/bash
# usage: sweep.sh <tier> <seed>...   runs every claimed check for each VERIF_SEED and prints the summary lines
TIER=$1; shift
cd "$(dirname "$0")/.."
for s in "$@"; do
  for p in C03 C04 C07 C08 C10 C11 C14 C15 C16 C17; do
    VERIF_SEED=$s timeout 3000 /venv/bin/python run.py check $p --tier $TIER 2>&1 | grep -E "^(VIOLATION|  kind|C[0-9]+ tier|HARNESS)" | cut -c1-400
    echo "   exit=${PIPESTATUS[0]} seed=$s prop=$p"
  done
done
