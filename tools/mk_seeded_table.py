#!/usr/bin/env python3
"""Regenerates the per-change table of DESIGN.md section 13.1 from seeded/*/meta.json (between the table header line
and the next blank line)."""
import glob, json, os, re
BASE = os.path.dirname(os.path.dirname(os.path.abspath(__file__)))


def clip(s, n=230):
    s = " ".join(str(s).split()).replace("|", "/")
    return s if len(s) <= n else s[:n]


rows = []
def key(p):
    n = os.path.basename(os.path.dirname(p))
    m = re.match(r"(C\d+)-agent(\d+)", n)
    return (m.group(1), int(m.group(2)))
for f in sorted(glob.glob(os.path.join(BASE, "seeded", "*", "meta.json")), key=key):
    m = json.load(open(f))
    n = os.path.basename(os.path.dirname(f))
    cr = m.get("check_result", {})
    caught = "yes" if cr.get("detected") else "no"
    if m.get("superseded_by_fix"):
        caught += " (now benign: " + clip(m["superseded_by_fix"], 60) + ")"
    rows.append(f"| seeded/{n} | {clip(m.get('summary', ''))} | {clip(m.get('needs', ''), 260)} | {caught} | {cr.get('first_kind') or ''} |")
p = os.path.join(BASE, "DESIGN.md")
s = open(p).read()
head = "| change | what it does | what it needs | caught | kind |\n|---|---|---|---|---|\n"
i = s.index(head) + len(head)
j = s.find("\n\n", i)
j = len(s.rstrip("\n")) if j < 0 else j
s = s[:i] + "\n".join(rows) + s[j:]
open(p, "w").write(s)
print(len(rows), "rows")
