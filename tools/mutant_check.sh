#!/bin/bash
# usage: mutant_check.sh <patch-file|REV:<commit>> <PROP> [runs] [extra run.py args]
# Applies the patch (or reverses the given fix commit) in a scratch worktree of /repo on tmpfs, runs the wider test
# suite there, then runs the check against it.  Removes the worktree afterwards.
set -u
P=$1; PROP=$2; RUNS=${3:-0}; case "$P" in REV:*) ;; /*) ;; *) P="$PWD/$P";; esac
WT=/dev/shm/mut-$$
git -C /repo worktree add -q --detach "$WT" HEAD || exit 9
trap 'git -C /repo worktree remove --force "$WT" >/dev/null 2>&1; rm -rf "$WT"' EXIT
if [[ "$P" == REV:* ]]; then
  c=${P#REV:}
  git -C /repo diff "$c^" "$c" | git -C "$WT" apply -R || { echo "cannot reverse $c"; exit 9; }
else
  git -C "$WT" apply "$P" || { echo "patch does not apply"; exit 9; }
fi
if [ "${SKIP_TESTS:-0}" != 1 ]; then /verif/tools/run_tests.sh "$WT" | sed 's/^/   tests: /'; fi
cd /verif
if [ "$RUNS" != 0 ]; then R="--runs $RUNS"; else R=""; fi
VERIF_REPO="$WT" /venv/bin/python run.py check "$PROP" $R "${@:4}" 2>&1 | grep -v "^KNOWN-FINDING" | tail -8
echo "exit=${PIPESTATUS[0]}"
