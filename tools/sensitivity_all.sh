#!/bin/bash
# Re-runs every sensitivity patch (own mutants + independent seeded changes) against the current checks and writes
# /verif/sensitivity.json.  usage: sensitivity_all.sh [quick|<runs>]
cd "$(dirname "$0")/.."; BASE=$PWD
OUT=$BASE/sensitivity.json
echo "[" > $OUT.tmp
first=1
run_one() {  # name patch prop
  local name=$1 patch=$2 prop=$3
  local WT=/dev/shm/sens-$$
  git -C /repo worktree add -q --detach "$WT" HEAD || return
  if git -C "$WT" apply "$BASE/$patch" 2>/dev/null; then
    local out rc kind
    out=$(VERIF_REPO="$WT" timeout 1800 /venv/bin/python run.py check "$prop" 2>&1); rc=$?
    kind=$(echo "$out" | grep -m1 "^  kind=" | sed 's/^  kind=\([^ ]*\).*/\1/')
    [ $first = 1 ] || echo "," >> $OUT.tmp; first=0
    echo " {\"change\": \"$name\", \"property\": \"$prop\", \"check_exit\": $rc, \"detected\": $([ $rc = 1 ] && echo true || echo false), \"first_kind\": \"$kind\"}" >> $OUT.tmp
    echo "$name $prop exit=$rc $kind"
  else
    echo "$name: patch does not apply"
  fi
  git -C /repo worktree remove --force "$WT" >/dev/null 2>&1; rm -rf "$WT"
}
for d in seeded/*/; do
  n=$(basename $d); prop=${n%%-*}
  run_one "seeded/$n" "$d/patch.diff" "$prop"
done
for p in mutants/*.diff; do
  n=$(basename $p .diff); prop=$(echo ${n%%_*} | tr a-z A-Z)
  run_one "mutants/$n" "$p" "$prop"
done
echo "]" >> $OUT.tmp; mv $OUT.tmp $OUT
rm -f $BASE/replays/*.json $BASE/replays/known/*.json
